"""SimNet / SimSocket / RawPeer: an in-process TCP-like network.

A connection is two unidirectional Pipes.  Tornado ends are SimSocket objects
(duck-typing the subset of socket.socket that IOStream, netutil and tcpclient
use); non-Tornado ends are RawPeer objects driven by scenario coroutines that
run on the same SimLoop.  All timing, short reads, partial sends and errors
are decided by tapes or by explicit scenario faults, and every one that
fires is counted in loop.faults.
"""

import errno
import heapq
import os
import socket as _socket

from .loop import UNIT

AF_INET = int(_socket.AF_INET)
AF_INET6 = int(_socket.AF_INET6)


class Pipe:
    """One direction of a connection."""

    __slots__ = (
        "net", "name", "window", "inflight_bytes", "rbuf", "fin", "rst",
        "last_arrival", "sent_total", "arrived_total", "read_total",
        "receiver", "sender", "fin_sent", "on_arrival", "on_drain",
        "receiver_closed",
    )

    def __init__(self, net, name, window):
        self.net = net
        self.name = name
        self.window = window  # max bytes not yet consumed by the receiver
        self.inflight_bytes = 0
        self.rbuf = bytearray()
        self.fin = False  # FIN has arrived at the receiver
        self.rst = False  # RST has arrived at the receiver
        self.fin_sent = False
        self.last_arrival = 0.0
        self.sent_total = 0
        self.arrived_total = 0
        self.read_total = 0
        self.receiver = None
        self.sender = None
        self.on_arrival = None  # RawPeer receivers
        self.on_drain = None  # RawPeer senders waiting for window
        self.receiver_closed = False

    def free(self):
        if self.window is None:
            return 1 << 30
        return self.window - self.inflight_bytes - len(self.rbuf)

    def push(self, data, delay_units=0):
        """Sender hands bytes to the network."""
        net = self.net
        when = max(self.last_arrival, net.loop._now + delay_units * UNIT)
        self.last_arrival = when
        self.inflight_bytes += len(data)
        self.sent_total += len(data)
        net.at(when, self._arrive, bytes(data))

    def push_fin(self, delay_units=0):
        if self.fin_sent:
            return
        self.fin_sent = True
        net = self.net
        when = max(self.last_arrival, net.loop._now + delay_units * UNIT)
        self.last_arrival = when
        net.at(when, self._arrive_fin)

    def push_rst(self, delay_units=0):
        net = self.net
        # RST is not ordered behind data: it takes effect on arrival and
        # discards what the receiver has not read.
        net.at(net.loop._now + delay_units * UNIT, self._arrive_rst)

    def _arrive(self, data):
        self.inflight_bytes -= len(data)
        if self.rst:
            return
        if self.receiver_closed:
            # data for a closed endpoint: answered with RST to the sender
            snd = self.sender
            if snd is not None:
                snd._got_rst_from_peer()
            return
        self.rbuf += data
        self.arrived_total += len(data)
        self.net.log.ev("arr", self.name, len(data))
        if self.on_arrival is not None:
            self.on_arrival()

    def _arrive_fin(self):
        if self.rst:
            return
        self.fin = True
        self.net.log.ev("fin", self.name)
        if self.on_arrival is not None:
            self.on_arrival()

    def _arrive_rst(self):
        self.rst = True
        del self.rbuf[:]
        self.net.log.ev("rst", self.name)
        if self.on_arrival is not None:
            self.on_arrival()

    def consume(self, n):
        data = bytes(self.rbuf[:n])
        del self.rbuf[:n]
        self.read_total += len(data)
        if self.on_drain is not None and data:
            self.on_drain()
        return data


class SimSocket:
    """The subset of socket.socket Tornado touches, on top of SimNet."""

    def __init__(self, net, family=AF_INET, type=_socket.SOCK_STREAM, proto=0):
        self.net = net
        self.family = _socket.AddressFamily(int(family))
        self.type = type
        self.proto = proto
        self._fd = net._alloc_fd()
        net.sockets[self._fd] = self
        self.state = "new"
        self.rx = None
        self.tx = None
        self.so_error = 0
        self.accept_q = []
        self.addr = None
        self.peer_addr = None
        self.local_addr = None
        self.opts = {}
        self.closed = False
        self.n_recv = 0
        self.n_send = 0
        self.sent = 0  # bytes accepted from the application
        self.tag = None
        self.fail_setblocking = False
        self.epipe = False
        self._eagain_last = False
        net.opened.append(self._fd)
        net.log.ev("sock", self._fd, int(family))

    # -- identity
    def fileno(self):
        return -1 if self.closed else self._fd

    def __repr__(self):
        return f"<SimSocket fd={self._fd} {self.state}>"

    def setblocking(self, flag):
        if self.closed:
            raise OSError(errno.EBADF, os.strerror(errno.EBADF))
        if self.fail_setblocking:
            raise OSError(errno.EINVAL, os.strerror(errno.EINVAL))

    def settimeout(self, t):
        pass

    def set_inheritable(self, flag):
        pass

    def setsockopt(self, level, opt, value):
        if self.closed:
            raise OSError(errno.EBADF, os.strerror(errno.EBADF))
        if self.net.setsockopt_einval and self.state != "connected":
            self.net.loop.faults["setsockopt_einval"] += 1
            raise OSError(errno.EINVAL, os.strerror(errno.EINVAL))
        self.opts[(int(level), int(opt))] = value

    def getsockopt(self, level, opt):
        if self.closed:
            raise OSError(errno.EBADF, os.strerror(errno.EBADF))
        if int(level) == _socket.SOL_SOCKET and int(opt) == _socket.SO_ERROR:
            e, self.so_error = self.so_error, 0
            return e
        return self.opts.get((int(level), int(opt)), 0)

    def getsockname(self):
        return self.local_addr or ("127.0.0.1", 40000 + self._fd)

    def getpeername(self):
        if self.state != "connected":
            raise OSError(errno.ENOTCONN, os.strerror(errno.ENOTCONN))
        return self.peer_addr

    def bind(self, addr):
        self.local_addr = addr

    # -- readiness (level-triggered)
    def readable(self):
        if self.closed:
            return False
        st = self.state
        if st == "listening":
            return bool(self.accept_q)
        if st == "connected":
            rx = self.rx
            return bool(rx.rbuf) or rx.fin or rx.rst or self.so_error != 0
        if st == "connect_failed":
            return True
        return False

    def writable(self):
        if self.closed:
            return False
        st = self.state
        if st == "connected":
            return self.tx.free() > 0 or self.rx.rst or self.epipe or self.so_error != 0
        if st == "connect_failed":
            return True
        return False

    # -- data
    def recv_into(self, buf, nbytes=0):
        net = self.net
        if self.closed:
            raise OSError(errno.EBADF, os.strerror(errno.EBADF))
        self.n_recv += 1
        f = net.io_faults.get((self.tag, "recv", self.n_recv))
        if f is not None:
            net.loop.faults["io_error"] += 1
            net.log.ev("recv_err", self._fd, f)
            raise OSError(f, os.strerror(f))
        if self.state != "connected":
            if self.state == "connect_failed" or self.so_error:
                e, self.so_error = self.so_error or errno.ECONNREFUSED, 0
                raise OSError(e, os.strerror(e))
            raise OSError(errno.ENOTCONN, os.strerror(errno.ENOTCONN))
        rx = self.rx
        if rx.rst:
            net.loop.faults["peer_rst_seen"] += 1
            raise ConnectionResetError(errno.ECONNRESET, os.strerror(errno.ECONNRESET))
        avail = len(rx.rbuf)
        if not avail:
            if rx.fin:
                net.log.ev("recv", self._fd, 0)
                return 0
            raise BlockingIOError(errno.EAGAIN, os.strerror(errno.EAGAIN))
        n = nbytes or len(buf)
        if n > avail:
            n = avail
        cap = net.tapes.draw("recv_cap")
        if cap and cap < n:
            n = cap
            net.loop.faults["short_read"] += 1
        buf[:n] = rx.rbuf[:n]
        del rx.rbuf[:n]
        rx.read_total += n
        if rx.on_drain is not None:
            rx.on_drain()
        net.log.ev("recv", self._fd, n)
        return n

    def recv(self, n):
        b = bytearray(n)
        k = self.recv_into(b, n)
        return bytes(b[:k])

    def send(self, data):
        net = self.net
        if self.closed:
            raise OSError(errno.EBADF, os.strerror(errno.EBADF))
        self.n_send += 1
        f = net.io_faults.get((self.tag, "send", self.n_send))
        if f is not None:
            net.loop.faults["io_error"] += 1
            net.log.ev("send_err", self._fd, f)
            raise OSError(f, os.strerror(f))
        if self.state != "connected":
            raise OSError(errno.ENOTCONN, os.strerror(errno.ENOTCONN))
        if self.rx.rst or self.epipe:
            net.loop.faults["epipe"] += 1
            raise BrokenPipeError(errno.EPIPE, os.strerror(errno.EPIPE))
        n = len(data)
        if n == 0:
            return 0
        tx = self.tx
        free = tx.free()
        if free <= 0:
            net.loop.faults["zero_window_stall"] += 1
            raise BlockingIOError(errno.EAGAIN, os.strerror(errno.EAGAIN))
        if n > free:
            n = free
            net.loop.faults["partial_send"] += 1
        cap = net.tapes.draw("send_cap")
        if cap:
            if cap < 0:
                # spurious EAGAIN although poll said writable: legal once, but a socket
                # that is reported writable and refuses every send for ever is not a
                # transport any more, so never twice in a row on one socket
                if not self._eagain_last:
                    self._eagain_last = True
                    net.loop.faults["send_eagain"] += 1
                    raise BlockingIOError(errno.EAGAIN, os.strerror(errno.EAGAIN))
                cap = 0
            if 0 < cap < n:
                n = cap
                net.loop.faults["partial_send"] += 1
        self._eagain_last = False
        d = net.tapes.draw("delay")
        if d:
            net.loop.faults["delay"] += 1
        chunk = bytes(data[:n])
        tx.push(chunk, d)
        self.sent += n
        net.log.ev("send", self._fd, n)
        if net.send_tap is not None:
            net.send_tap(self, chunk)
        return n

    def sendall(self, data):  # pragma: no cover - tornado never calls it
        raise RuntimeError("sendall on a non-blocking SimSocket")

    # -- connection management
    def connect(self, address):
        net = self.net
        if self.closed:
            raise OSError(errno.EBADF, os.strerror(errno.EBADF))
        self.peer_addr = address
        key = (address[0], address[1])
        script = net.connect_script.get(key)
        if script is None:
            script = {"outcome": "accept" if key in net.listeners else "refuse"}
        outcome = script.get("outcome", "accept")
        delay = script.get("delay", 0)
        net.log.ev("connect", self._fd, address[0], address[1], outcome, delay)
        net.connect_attempts.append((self._fd, key, net.loop._now))
        if outcome == "sync_error":
            net.loop.faults["connect_sync_error"] += 1
            e = script.get("errno", errno.ENETUNREACH)
            raise OSError(e, os.strerror(e))
        self.state = "connecting"
        if outcome == "blackhole":
            net.loop.faults["connect_blackhole"] += 1
        elif outcome == "refuse":
            net.at(net.loop._now + delay * UNIT, self._connect_fail,
                   script.get("errno", errno.ECONNREFUSED))
        else:
            net.at(net.loop._now + delay * UNIT, self._connect_ok, key)
        raise BlockingIOError(errno.EINPROGRESS, os.strerror(errno.EINPROGRESS))

    def _connect_fail(self, e):
        if self.closed:
            return
        self.net.loop.faults["connect_refused"] += 1
        self.state = "connect_failed"
        self.so_error = e
        self.net.log.ev("connect_failed", self._fd, e)

    def _connect_ok(self, key):
        if self.closed:
            return
        net = self.net
        target = net.listeners.get(key)
        if target is None:
            self._connect_fail(errno.ECONNREFUSED)
            return
        net.log.ev("connected", self._fd)
        net.connect_successes.append((self._fd, key, net.loop._now))
        if isinstance(target, SimSocket):
            srv = SimSocket(net, target.family)
            net._wire(self, srv, net.default_window, net.default_window)
            srv.peer_addr = self.getsockname()
            srv.local_addr = target.local_addr
            target.accept_q.append(srv)
        else:
            # raw listener: factory(peer) spawns the peer's script
            peer = RawPeer(net, name=f"srv{self._fd}")
            net._wire(self, peer, net.default_window, net.default_window)
            peer.remote_fd = self._fd
            target(peer)

    def listen(self, backlog=128):
        self.state = "listening"
        if self.local_addr is not None:
            self.net.listeners[(self.local_addr[0], self.local_addr[1])] = self

    def accept(self):
        if self.closed:
            raise OSError(errno.EBADF, os.strerror(errno.EBADF))
        if not self.accept_q:
            raise BlockingIOError(errno.EAGAIN, os.strerror(errno.EAGAIN))
        if self.net.tapes.draw("accept_abort"):
            self.net.loop.faults["accept_aborted"] += 1
            raise ConnectionAbortedError(errno.ECONNABORTED, "aborted")
        s = self.accept_q.pop(0)
        self.net.log.ev("accept", self._fd, s._fd)
        return s, s.peer_addr

    def shutdown(self, how):
        if self.state == "connected" and how in (_socket.SHUT_WR, _socket.SHUT_RDWR):
            self.tx.push_fin()

    def close(self):
        if self.closed:
            return
        net = self.net
        net.log.ev("close", self._fd)
        net.closed_order.append(self._fd)
        if self.state == "listening" and self.local_addr is not None:
            net.listeners.pop((self.local_addr[0], self.local_addr[1]), None)
            for s in self.accept_q:
                s.close()
        if self.state == "connected":
            rx = self.rx
            rx.receiver_closed = True
            if rx.rbuf and not rx.rst:
                # closing with unread data: the kernel answers with RST
                del rx.rbuf[:]
                self.tx.push_rst()
                net.loop.faults["close_with_unread"] += 1
            else:
                self.tx.push_fin()
        self.closed = True
        self.state = "closed"
        net.sockets.pop(self._fd, None)

    def detach(self):  # pragma: no cover
        raise NotImplementedError

    def _got_rst_from_peer(self):
        # our data hit a closed endpoint
        if self.rx is not None:
            self.rx.rst = True
        self.epipe = True


class RawPeer:
    """The non-Tornado end of a connection, driven by scenario code."""

    def __init__(self, net, name="peer"):
        self.net = net
        self.name = name
        self.rx = None  # Pipe tornado -> peer
        self.tx = None  # Pipe peer -> tornado
        self.received = bytearray()
        self.auto = True  # consume on arrival
        self.eof = False
        self.eof_time = None
        self.got_rst = False
        self.closed = False
        self.arrivals = []  # (time, cumulative length)
        self._waiters = []
        self.remote_fd = None
        self.epipe = False

    # Pipe callbacks
    def _on_arrival(self):
        rx = self.rx
        if self.auto and rx.rbuf:
            self.received += rx.consume(len(rx.rbuf))
            self.arrivals.append((self.net.loop._now, len(self.received)))
        if rx.rst and not self.got_rst:
            self.got_rst = True
            if self.eof_time is None:
                self.eof_time = self.net.loop._now
        if rx.fin and not rx.rbuf and not self.eof:
            self.eof = True
            if self.eof_time is None:
                self.eof_time = self.net.loop._now
        self._wake()

    def _got_rst_from_peer(self):
        self.got_rst = True
        self.epipe = True
        self._wake()

    def _wake(self):
        ws, self._waiters = self._waiters, []
        for pred, fut in ws:
            if fut.done():
                continue
            if pred():
                fut.set_result(None)
            else:
                self._waiters.append((pred, fut))

    def ended(self):
        return self.eof or self.got_rst

    def consume(self, n=None):
        """Manual consumption (auto=False): take up to n buffered bytes."""
        rx = self.rx
        k = len(rx.rbuf) if n is None else min(n, len(rx.rbuf))
        if k:
            self.received += rx.consume(k)
            self.arrivals.append((self.net.loop._now, len(self.received)))
        if rx.fin and not rx.rbuf and not self.eof:
            self.eof = True
            self.eof_time = self.net.loop._now
        return k

    async def wait(self, pred):
        if pred():
            return
        fut = self.net.loop.create_future()
        self._waiters.append((pred, fut))
        await fut

    async def wait_bytes(self, n):
        await self.wait(lambda: len(self.received) >= n or self.ended())

    async def wait_for(self, token, start=0):
        await self.wait(lambda: self.received.find(token, start) >= 0 or self.ended())
        return self.received.find(token, start)

    async def wait_eof(self):
        await self.wait(self.ended)

    def send(self, data, delay=0, gap=None):
        """Put one segment on the wire.

        ``delay``: arrives that many units from now (never before earlier
        segments).  ``gap``: arrives that many units after the previous
        segment's arrival (or after now, whichever is later).
        """
        if self.closed:
            raise RuntimeError("peer send after close")
        if not data:
            return
        if gap is not None:
            tx = self.tx
            base = max(tx.last_arrival, self.net.loop._now)
            delay = (base - self.net.loop._now) / UNIT + gap
        self.net.log.ev("psend", self.name, len(data), delay)
        self.tx.push(data, delay)

    def send_segments(self, data, cuts, gaps=()):
        """Send ``data`` cut at the sorted offsets ``cuts``; gaps[i] units
        between consecutive segments (default 0 = same instant, separate
        arrivals are still separate recv-able events only if gap > 0)."""
        pos = 0
        i = 0
        for c in list(cuts) + [len(data)]:
            if c <= pos or c > len(data):
                continue
            g = gaps[i] if i < len(gaps) else 1
            self.send(data[pos:c], gap=g if i else 0)
            pos = c
            i += 1

    def _gap_delay(self, delay, gap):
        if gap is None:
            return delay
        now = self.net.loop._now
        return (max(self.tx.last_arrival, now) - now) / UNIT + gap

    def half_close(self, delay=0, gap=None):
        self.net.log.ev("pfin", self.name)
        self.net.loop.faults["peer_half_close"] += 1
        self.tx.push_fin(self._gap_delay(delay, gap))

    def close(self, delay=0, gap=None):
        """FIN, and stop reading: later data from Tornado is answered by RST."""
        if self.closed:
            return
        self.closed = True
        self.net.log.ev("pclose", self.name)
        self.net.loop.faults["peer_fin"] += 1
        self.tx.push_fin(self._gap_delay(delay, gap))
        rx = self.rx
        rx.receiver_closed = True
        del rx.rbuf[:]

    def reset(self, delay=0):
        if self.closed:
            return
        self.closed = True
        self.net.log.ev("preset", self.name)
        self.net.loop.faults["peer_rst"] += 1
        self.tx.push_rst(delay)
        rx = self.rx
        rx.receiver_closed = True
        del rx.rbuf[:]


class SimNet:
    def __init__(self, loop, tapes, log, default_window=65536):
        self.loop = loop
        self.tapes = tapes
        self.log = log
        loop.net = self
        self.sockets = {}
        self.listeners = {}  # (ip, port) -> listening SimSocket | raw factory
        self.connect_script = {}  # (ip, port) -> {"outcome", "delay", "errno"}
        self.events = []
        self._seq = 0
        self._next_fd = 100
        self.default_window = default_window
        self.io_faults = {}  # (tag, "recv"|"send", nth call) -> errno
        self.setsockopt_einval = False
        self.opened = []
        self.closed_order = []
        self.connect_attempts = []
        self.connect_successes = []
        self.send_tap = None
        self.created = []  # sockets created through the socket-module proxy
        self.reuse_fds = False  # set True to hand out closed sockets' fd numbers again

    def _alloc_fd(self):
        if self.reuse_fds:
            # like the kernel: the lowest free descriptor number (a closed socket's number
            # is handed out again), so stale per-fd bookkeeping in the code under test shows
            fd = 101
            used = self.sockets
            while fd in used:
                fd += 1
            return fd
        self._next_fd += 1
        return self._next_fd

    def at(self, when, fn, *args):
        self._seq += 1
        heapq.heappush(self.events, (when, self._seq, fn, args))

    def next_time(self):
        return self.events[0][0] if self.events else None

    def deliver_due(self, now):
        ev = self.events
        while ev and ev[0][0] <= now:
            _, _, fn, args = heapq.heappop(ev)
            fn(*args)

    def _wire(self, a, b, window_ab, window_ba):
        """Connect endpoints a and b (SimSocket or RawPeer)."""
        an = getattr(a, "_fd", None) or a.name
        bn = getattr(b, "_fd", None) or b.name
        ab = Pipe(self, f"{an}>{bn}", window_ab)
        ba = Pipe(self, f"{bn}>{an}", window_ba)
        a.tx, a.rx = ab, ba
        b.tx, b.rx = ba, ab
        ab.sender, ab.receiver = a, b
        ba.sender, ba.receiver = b, a
        for ep, rx in ((a, ba), (b, ab)):
            if isinstance(ep, RawPeer):
                rx.on_arrival = ep._on_arrival
            else:
                ep.state = "connected"

    # -- harness-side construction -----------------------------------
    def listen(self, ip="127.0.0.1", port=80, family=AF_INET):
        s = SimSocket(self, family)
        s.local_addr = (ip, port)
        s.listen()
        return s

    def raw_listen(self, ip, port, factory):
        """factory(peer: RawPeer) is called for each accepted connection."""
        self.listeners[(ip, port)] = factory

    def raw_connect(self, listener, name="cli", window=None, delay=0,
                    peer_addr=("127.0.0.1", 50000)):
        """A raw client connects to a listening SimSocket."""
        peer = RawPeer(self, name)
        srv = SimSocket(self, listener.family)
        w = self.default_window if window is None else window
        self._wire(peer, srv, None, w)
        srv.peer_addr = peer_addr
        srv.local_addr = listener.local_addr

        def arrive():
            if listener.closed:
                srv.close()
                return
            listener.accept_q.append(srv)

        if delay:
            self.at(self.loop._now + delay * UNIT, arrive)
        else:
            arrive()
        return peer, srv

    def pair(self, window_ab=None, window_ba=None, tag_a="a", name="peer"):
        """A connected (SimSocket, RawPeer) pair, for IOStream-level work."""
        s = SimSocket(self)
        p = RawPeer(self, name)
        self._wire(s, p, window_ab if window_ab is not None else self.default_window,
                   window_ba)
        s.tag = tag_a
        s.peer_addr = ("127.0.0.1", 50000)
        return s, p

    def leaked(self):
        """fds of sockets created and not closed."""
        return sorted(self.sockets)


class SocketModuleProxy:
    """Stands in for the ``socket`` module inside tornado.tcpclient etc."""

    def __init__(self, net):
        self._net = net

    def socket(self, family=AF_INET, type=_socket.SOCK_STREAM, proto=0, fileno=None):
        s = SimSocket(self._net, family, type, proto)
        self._net.created.append(s)
        hook = self._net.__dict__.get("on_socket_created")
        if hook is not None:
            hook(s)
        return s

    def __getattr__(self, name):
        return getattr(_socket, name)
