"""SimLoop: a discrete-event asyncio loop with virtual time.

Subclass of asyncio.BaseEventLoop (CPython 3.12 pinned) that replaces the
poller and the clock.  One iteration mirrors BaseEventLoop._run_once:
poll I/O (from SimNet state, perturbed by tapes) -> move due timers to the
ready queue -> run a snapshot of the ready queue FIFO.  When nothing is
runnable the clock jumps to the next timer / network event; when there is
no such event either, the loop stops itself ("quiescence").
"""

import asyncio
import collections
import heapq
import math
import socket as _socket
from asyncio import events

UNIT = 2.0**-10
T0 = 4096.0  # loop.time() at start of every run
WALL0 = 1_700_000_000.0  # time.time() at start of every run (before skew)


class SimStepCap(Exception):
    """The run exceeded its iteration budget (treated by each property)."""


class SimLoop(asyncio.BaseEventLoop):
    def __init__(self, tapes, log, max_iters=200_000, max_time=None):
        super().__init__()
        self._clock_resolution = 2.0**-20
        self._now = T0
        self.skew = 0.0
        self.tapes = tapes
        self.log = log
        self.net = None
        self.max_iters = max_iters
        self.max_time = None if max_time is None else T0 + max_time
        self._sim_readers = {}
        self._sim_writers = {}
        self._deferred_last = set()
        self._idle_waiters = collections.deque()
        self.iterations = 0
        self.quiesced = False
        self.time_capped = False
        self.step_capped = False
        self.signal_handlers = {}
        self.dns = {}
        self.faults = collections.Counter()  # fault kind -> times fired
        self.probes = collections.Counter()
        self.block_hook = None  # threads: called when the loop would block
        self._woken = False
        self.io_dispatches = 0
        self.clock_jumps = 0

    # ---- clocks -------------------------------------------------------
    def time(self):
        return self._now

    def wall(self):
        return WALL0 + (self._now - T0) + self.skew

    def sim_elapsed(self):
        return self._now - T0

    # ---- readers / writers -------------------------------------------
    def _fdnum(self, fd):
        return fd if isinstance(fd, int) else fd.fileno()

    def add_reader(self, fd, callback, *args):
        self._check_closed()
        fd = self._fdnum(fd)
        h = events.Handle(callback, args, self, None)
        old = self._sim_readers.get(fd)
        if old is not None:
            old.cancel()
        self._sim_readers[fd] = h
        return h

    def remove_reader(self, fd):
        fd = self._fdnum(fd)
        h = self._sim_readers.pop(fd, None)
        if h is None:
            return False
        h.cancel()
        return True

    def add_writer(self, fd, callback, *args):
        self._check_closed()
        fd = self._fdnum(fd)
        h = events.Handle(callback, args, self, None)
        old = self._sim_writers.get(fd)
        if old is not None:
            old.cancel()
        self._sim_writers[fd] = h
        return h

    def remove_writer(self, fd):
        fd = self._fdnum(fd)
        h = self._sim_writers.pop(fd, None)
        if h is None:
            return False
        h.cancel()
        return True

    # ---- things the real loop does with OS help -----------------------
    def _write_to_self(self):
        self._woken = True

    def _process_events(self, event_list):  # pragma: no cover - unused
        pass

    def add_signal_handler(self, sig, callback, *args):
        self.signal_handlers[int(sig)] = (callback, args)

    def remove_signal_handler(self, sig):
        return self.signal_handlers.pop(int(sig), None) is not None

    def deliver_signal(self, sig):
        ent = self.signal_handlers.get(int(sig))
        self.log.ev("signal", int(sig), ent is not None)
        if ent is not None:
            self.call_soon(ent[0], *ent[1])

    async def getaddrinfo(self, host, port, *, family=0, type=0, proto=0, flags=0):
        if isinstance(host, bytes):
            host = host.decode("latin1")
        spec = self.dns.get(host)
        self.log.ev("dns", host, port, int(family))
        if spec is None:
            # numeric literal -> itself; anything else -> NXDOMAIN
            if ":" in host:
                addrs = [(int(_socket.AF_INET6), host)]
            elif host.replace(".", "").isdigit():
                addrs = [(int(_socket.AF_INET), host)]
            else:
                self.faults["dns_fail"] += 1
                raise _socket.gaierror(_socket.EAI_NONAME, "Name or service not known")
            delay = 0
            fail = False
        else:
            addrs = [(int(f), ip) for f, ip in spec.get("addrs", ())]
            delay = spec.get("delay", 0)
            fail = spec.get("fail", False)
        if delay:
            self.faults["dns_slow"] += 1
            await asyncio.sleep(delay * UNIT)
        if fail:
            self.faults["dns_fail"] += 1
            raise _socket.gaierror(_socket.EAI_NONAME, "Name or service not known")
        out = []
        for fam, ip in addrs:
            if family and int(family) != fam:
                continue
            if fam == int(_socket.AF_INET6):
                sa = (ip, port, 0, 0)
            else:
                sa = (ip, port)
            out.append(
                (_socket.AddressFamily(fam), _socket.SOCK_STREAM, 6, "", sa)
            )
        if not out:
            raise _socket.gaierror(_socket.EAI_NONAME, "Name or service not known")
        return out

    async def getnameinfo(self, sockaddr, flags=0):  # pragma: no cover
        raise NotImplementedError

    def run_in_executor(self, executor, func, *args):
        raise RuntimeError("seam breach: run_in_executor reached inside simulation")

    # ---- idle notification --------------------------------------------
    def idle(self):
        """Future resolved the next time nothing is runnable at this instant."""
        fut = self.create_future()
        self._idle_waiters.append(fut)
        return fut

    # ---- the iteration --------------------------------------------------
    def _end_time(self):
        # timers with _when < end_time are due; at huge virtual times the clock
        # resolution falls below one ulp, so make sure "due now" stays true
        e = self._now + self._clock_resolution
        if e == self._now:
            e = math.nextafter(self._now, math.inf)
        return e

    def _poll_io(self):
        net = self.net
        if net is None or not (self._sim_readers or self._sim_writers):
            self._deferred_last = set()
            return (), False
        socks = net.sockets
        ready = []
        nonready_readers = []
        for fd in sorted(self._sim_readers):
            s = socks.get(fd)
            if s is not None and s.readable():
                ready.append((fd, 0))
            else:
                nonready_readers.append(fd)
        for fd in sorted(self._sim_writers):
            s = socks.get(fd)
            if s is not None and s.writable():
                ready.append((fd, 1))
        tapes = self.tapes
        deferred = set()
        if ready:
            out = []
            for ent in ready:
                if ent[0] not in self._deferred_last and tapes.draw("defer"):
                    deferred.add(ent[0])
                    self.faults["readiness_deferred"] += 1
                    continue
                out.append(ent)
            ready = out
            if len(ready) > 1:
                k = tapes.draw("order")
                if k:
                    n = len(ready)
                    r = k % n
                    ready = ready[r:] + ready[:r]
                    if k & 64:
                        ready.reverse()
                    self.faults["readiness_reordered"] += 1
        if nonready_readers:
            v = tapes.draw("spurious")
            if v:
                fd = nonready_readers[(v - 1) % len(nonready_readers)]
                ready.append((fd, 0))
                self.faults["spurious_wakeup"] += 1
        self._deferred_last = deferred
        handles = []
        for fd, w in ready:
            h = (self._sim_writers if w else self._sim_readers).get(fd)
            if h is not None and not h._cancelled:
                handles.append(h)
                self.log.ev("io", fd, w)
        return handles, bool(deferred)

    def _run_once(self):
        self.iterations += 1
        if self.iterations > self.max_iters:
            self.step_capped = True
            raise SimStepCap(self.iterations)

        sched = self._scheduled
        while sched and sched[0]._cancelled:
            self._timer_cancelled_count -= 1
            handle = heapq.heappop(sched)
            handle._scheduled = False

        net = self.net
        tapes = self.tapes
        while True:
            if net is not None:
                net.deliver_due(self._now)
            io, deferred = self._poll_io()
            if self._ready or self._stopping or io or deferred:
                break
            while sched and sched[0]._cancelled:
                self._timer_cancelled_count -= 1
                handle = heapq.heappop(sched)
                handle._scheduled = False
            next_t = sched[0]._when if sched else None
            if next_t is not None and next_t < self._end_time():
                break
            if self.block_hook is not None:
                # other threads may produce work; returns True if they did
                if self.block_hook():
                    continue
            if self._idle_waiters:
                while self._idle_waiters:
                    f = self._idle_waiters.popleft()
                    if not f.done():
                        f.set_result(None)
                if self._ready:
                    break
            nt = net.next_time() if net is not None else None
            if next_t is None and nt is None:
                self.quiesced = True
                self._stopping = True
                break
            target = next_t if nt is None else nt if next_t is None else min(next_t, nt)
            late = tapes.draw("late")
            new_now = max(self._now, target)
            if late:
                new_now += late * UNIT
                self.faults["timer_late"] += 1
            if self.max_time is not None and new_now > self.max_time:
                self.time_capped = True
                self._stopping = True
                break
            self._now = new_now
            self.clock_jumps += 1
            if self.clock_jumps > 50 * self.max_iters:
                self.step_capped = True
                raise SimStepCap(self.iterations)
            self.log.ev("t", new_now)

        cost = tapes.draw("cost")
        if cost:
            self._now += cost * UNIT
            self.faults["iteration_cost"] += 1
        for h in io:
            self._ready.append(h)
            self.io_dispatches += 1

        end_time = self._end_time()
        while sched:
            handle = sched[0]
            if handle._when >= end_time:
                break
            handle = heapq.heappop(sched)
            handle._scheduled = False
            self._ready.append(handle)

        ready = self._ready
        ntodo = len(ready)
        for _ in range(ntodo):
            handle = ready.popleft()
            if handle._cancelled:
                continue
            handle._run()
        handle = None

    def run_until_quiescent(self):
        """Run until nothing can happen any more (or a cap trips)."""
        self.quiesced = False
        try:
            self.run_forever()
        except SimStepCap:
            pass
        return self.quiesced
