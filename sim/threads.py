"""Baton scheduling of real OS threads (DESIGN 3.5).

Real threads, but exactly one of them runs at any time: the one that holds
the *baton*.  Every simulated primitive is a *yield point* at which the
scheduler (a decision tape) says who runs next; a thread that has to wait
(``Condition.wait``, lock acquisition, ``select``, ``join``, the event loop
sleeping in its poller) is *blocked* on a predicate over the simulated state
and is not eligible until the predicate holds.  No eligible thread while a
thread is blocked = deadlock (``Baton.on_fatal``), unless a blocked thread
declared itself ``idle_ok`` (the event loop in its poller: it is then resumed
with "nobody else can make progress", which lets SimLoop advance the virtual
clock or declare quiescence).

Nothing in here reads a clock, a PRNG, a thread id or an address; the only
input is the tape.  Threads are named by their creation index.

Pieces:
  Baton                 the scheduler
  BatonLoop             SimLoop + yield points (iteration boundary,
                        call_soon_threadsafe, sleeping in the poller)
  sim_threading(...)    ModProxy for ``threading`` (Thread, Condition)
  SimSelect             ``select.select`` over SimNet sockets + waker pairs
  WakerPair             ``socket.socketpair()``
  line_tracer(...)      sys.settrace function: every line of chosen files is
                        a yield point

Runs that use this module must execute in a forked child (see
``run_forked``): threads parked by an aborted run die with the child.
"""

import _thread
import errno
import json
import os
import select as _real_select
import signal
import sys
import traceback

from .env import ModProxy
from .loop import SimLoop

# captured at import (outside any SimEnv, whose seam guards replace them)
_os_fork = os.fork
_os_select = _real_select.select

NEW, RUNNABLE, BLOCKED, DONE = 0, 1, 2, 3
_STATE = {NEW: "new", RUNNABLE: "runnable", BLOCKED: "blocked", DONE: "done"}


class BatonAbort(SystemExit):
    """Unwinds the main thread after a run was abandoned in place (``on_fatal``
    returned instead of ending the process).  A SystemExit so that asyncio's
    Handle._run / Task.__step let it through."""


class _Rec:
    __slots__ = ("idx", "name", "lock", "state", "pred", "where", "idle_ok", "idle",
                 "exc", "target", "trace")

    def __init__(self, idx, name):
        self.idx = idx
        self.name = name
        self.lock = _thread.allocate_lock()
        self.lock.acquire()  # parked = blocked in a second acquire()
        self.state = NEW
        self.pred = None
        self.where = "start"
        self.idle_ok = False
        self.idle = False
        self.exc = None
        self.target = None
        self.trace = None


class Baton:
    def __init__(self, draw, log, max_steps=20000, fair_cap=4000, tape="thread",
                 on_fatal=None):
        self.draw = draw
        self.log = log
        self.tape = tape
        self.max_steps = max_steps
        self.fair_cap = fair_cap
        self.on_fatal = on_fatal
        self.on_thread_exc = None
        self.threads = []
        self.cur = None
        self.steps = 0
        self.fair = False
        self.fair_steps = 0
        self.last = 0
        self.choices = 0  # decisions with >= 2 eligible threads (tape consulted)
        self.preempts = 0  # ... where the tape did not pick the default
        self.switches = 0  # baton actually changed hands
        self.trail = []  # (kind, arg, from, to, eligible)
        self.dead = False  # run abandoned in place: primitives are inert
        self.tracer = None

    # -- threads -------------------------------------------------------------
    def adopt(self, name="L"):
        """Register the calling OS thread; it holds the baton."""
        r = _Rec(len(self.threads), name)
        r.state = RUNNABLE
        self.threads.append(r)
        self.cur = r
        return r

    def spawn(self, target, name):
        """Create a parked OS thread that will run ``target()`` when scheduled."""
        r = _Rec(len(self.threads), name)
        r.target = target
        r.state = RUNNABLE
        r.where = "spawned"
        self.threads.append(r)
        self.log.ev("spawn", r.idx, name)
        _thread.start_new_thread(self._body, (r,))
        return r

    def _body(self, r):
        r.lock.acquire()  # first scheduling
        if self.tracer is not None:
            sys.settrace(self.tracer)
        try:
            r.target()
        except BaseException as e:  # noqa: BLE001 - observed by the oracle
            r.exc = e
            self.log.ev("thread_exc", r.idx, type(e).__name__)
            if self.on_thread_exc is not None:
                self.on_thread_exc(r, e)
        sys.settrace(None)
        r.state = DONE
        r.where = "exit"
        self._decide(r, "thread.exit", 0)

    def set_fair(self):
        if not self.fair:
            self.fair = True
            self.log.ev("fair")

    # -- switch points -------------------------------------------------------
    def yield_(self, kind, arg=0):
        self._decide(self.cur, kind, arg)

    def block(self, pred, kind, idle_ok=False):
        """Wait until ``pred()`` holds.  Returns True if resumed as *idle*
        (only with idle_ok: nobody else could run and pred still fails)."""
        if self.dead:
            return False
        me = self.cur
        me.state = BLOCKED
        me.pred = pred
        me.where = kind
        me.idle_ok = idle_ok
        me.idle = False
        self._decide(me, kind, 0)
        me.idle_ok = False
        r = me.idle
        me.idle = False
        return r

    def describe(self):
        return [(t.name, _STATE[t.state], t.where) for t in self.threads]

    def fatal(self, kind, detail=""):
        """Deadlock / cap.  ``on_fatal`` takes the verdict; it either ends the process or
        returns, in which case the run is abandoned *in place*: the scheduler goes dead
        (every primitive becomes a non-blocking no-op), the main thread is unwound with
        BatonAbort, and every other thread of the run stays parked on its private lock
        for ever - inert until the process ends."""
        self.log.ev("fatal", kind, detail)
        if self.on_fatal is not None:
            self.on_fatal(kind, detail)
        self.dead = True
        me = self.cur
        main = self.threads[0]
        if me is main:
            raise BatonAbort(kind)
        self.cur = main
        main.lock.release()
        me.lock.acquire()  # never released
        raise BatonAbort(kind)  # pragma: no cover

    def _decide(self, me, kind, arg):
        if self.dead:
            return
        self.steps += 1
        if self.steps > self.max_steps:
            self.fatal("step_cap", kind)
        if self.fair:
            self.fair_steps += 1
            if self.fair_steps > self.fair_cap:
                self.fatal("fair_cap", kind)
        cands = []
        for t in self.threads:
            st = t.state
            if st == RUNNABLE or (st == BLOCKED and t.pred()):
                cands.append(t)
        n = len(cands)
        if n == 0:
            for t in self.threads:
                if t.state == BLOCKED and t.idle_ok:
                    t.idle = True
                    cands = [t]
                    break
            else:
                self.fatal("deadlock", "+".join(
                    f"{t.name}:{t.where}" for t in self.threads if t.state == BLOCKED))
        if n <= 1:
            nxt = cands[0]
        elif self.fair:
            last = self.last
            nxt = cands[0]
            for t in cands:
                if t.idx > last:
                    nxt = t
                    break
        else:
            if me.state != DONE and me in cands:
                i = cands.index(me)
                if i:
                    cands = [me] + cands[:i] + cands[i + 1:]
            v = self.draw(self.tape)
            self.choices += 1
            if v % n:
                self.preempts += 1
            nxt = cands[v % n]
        self.last = nxt.idx
        self.log.ev("sw", kind, arg, me.idx, nxt.idx, n)
        tr = self.trail
        tr.append((kind, arg, me.idx, nxt.idx, n))
        if len(tr) > 400:
            del tr[:200]
        nxt.state = RUNNABLE
        nxt.pred = None
        if nxt is me:
            return
        self.switches += 1
        self.cur = nxt
        done = me.state == DONE
        nxt.lock.release()
        if not done:
            me.lock.acquire()
            if self.dead:
                # woken by the thread that abandoned the run (only the main thread is)
                raise BatonAbort("abandoned")

    def trail_text(self, n=40):
        names = [t.name for t in self.threads]
        out = []
        for kind, arg, a, b, k in self.trail[-n:]:
            s = f"{names[a]}@{kind}" + (f":{arg}" if arg else "")
            if a != b:
                s += f">{names[b]}"
            out.append(s)
        return " ".join(out)


# ----------------------------------------------------------------------------
# event loop


class BatonLoop(SimLoop):
    """SimLoop whose blocking points are scheduler points."""

    sched = None
    on_post = None  # fn(callback) -> callback, observation of cross-thread posts
    on_post_failed = None  # fn(): the post was refused (loop closed)

    def attach(self, sched):
        self.sched = sched
        self.block_hook = self._baton_block
        self.unwoken = []  # handles queued without a wake-up and never run

    def _run_once(self):
        s = self.sched
        if s is not None:
            s.yield_("loop.iter")
        super()._run_once()

    def call_soon_threadsafe(self, callback, *args, context=None):
        s = self.sched
        if s is not None:
            s.yield_("loop.post")
            if self.on_post is not None:
                callback = self.on_post(callback)
                try:
                    return super().call_soon_threadsafe(callback, *args, context=context)
                except BaseException:
                    if self.on_post_failed is not None:
                        self.on_post_failed()
                    raise
        return super().call_soon_threadsafe(callback, *args, context=context)

    def _baton_block(self):
        # the loop found nothing to do and is about to sleep in its poller
        if not self._woken:
            self.sched.block(self._is_woken, "loop.sleep", idle_ok=True)
        if self._woken:
            self._woken = False
            return True
        # Nobody else can run and nobody woke us.  Whatever sits in the ready queue now was
        # put there by another thread *without* a wake-up: a real loop stays in its poller
        # until the next timer / I/O event, or for ever if there is none.  SimLoop would run
        # the queue in its last iteration; take it away so that the loss is observable.
        if self._ready:
            sched = self._scheduled
            if not any(not h._cancelled for h in sched) and \
                    (self.net is None or self.net.next_time() is None):
                self.unwoken.extend(self._ready)
                self._ready.clear()
                self.log.ev("loop.unwoken", len(self.unwoken))
        return False

    def _is_woken(self):
        return self._woken


# ----------------------------------------------------------------------------
# threading


def sim_threading(sched, real_threading, obs=None):
    """Module proxy for ``threading`` with baton-scheduled Thread/Condition."""
    log = sched.log

    class Thread:
        def __init__(self, group=None, target=None, name=None, args=(), kwargs=None,
                     *, daemon=None):
            self._target = target
            self._args = args
            self._kwargs = kwargs or {}
            self.name = name or "Thread"
            self.daemon = bool(daemon)
            self._rec = None

        def start(self):
            if self._rec is not None:
                raise RuntimeError("threads can only be started once")
            sched.yield_("thread.start")
            t = self
            self._rec = sched.spawn(lambda: t._target(*t._args, **t._kwargs),
                                    "S%d" % len(sched.threads))
            if obs is not None:
                obs("thread.start", self._rec.idx)

        def join(self, timeout=None):
            rec = self._rec
            if rec is None:
                raise RuntimeError("cannot join thread before it is started")
            if rec is sched.cur:
                raise RuntimeError("cannot join current thread")
            sched.block(lambda: rec.state == DONE, "thread.join")

        def is_alive(self):
            return self._rec is not None and self._rec.state != DONE

        @property
        def ident(self):
            return None if self._rec is None else 1000 + self._rec.idx

    class Condition:
        """threading.Condition() over an RLock, in simulated state."""

        def __init__(self, lock=None):
            self._owner = None
            self._count = 0
            self._waiters = []
            self.spurious = None  # fn() -> bool, set by the property module

        def _free(self):
            return self._owner is None

        def acquire(self, blocking=True, timeout=-1):
            me = sched.cur
            if self._owner is me:
                self._count += 1
                return True
            if not blocking:
                sched.yield_("cv.try")
                if self._owner is not None:
                    return False
            else:
                sched.block(self._free, "cv.enter")
            self._owner = me
            self._count = 1
            return True

        def release(self):
            if self._owner is not sched.cur:
                raise RuntimeError("cannot release un-acquired lock")
            self._count -= 1
            if self._count == 0:
                self._owner = None
                sched.yield_("cv.exit")

        __enter__ = acquire

        def __exit__(self, *a):
            self.release()

        def wait(self, timeout=None):
            me = sched.cur
            if self._owner is not me:
                raise RuntimeError("cannot wait on un-acquired lock")
            saved = self._count
            tok = [False]
            if self.spurious is not None and self.spurious():
                tok[0] = True
                log.ev("cv.spurious")
                if obs is not None:
                    obs("cv.spurious", 1)
            else:
                self._waiters.append(tok)
            self._owner = None
            self._count = 0
            cv = self
            sched.block(lambda: tok[0] and cv._owner is None, "cv.wait")
            self._owner = me
            self._count = saved
            return True

        def wait_for(self, predicate, timeout=None):
            r = predicate()
            while not r:
                self.wait()
                r = predicate()
            return r

        def notify(self, n=1):
            if self._owner is not sched.cur:
                raise RuntimeError("cannot notify on un-acquired lock")
            ws = self._waiters
            k = 0
            while ws and k < n:
                ws.pop(0)[0] = True
                k += 1
            if obs is not None:
                obs("cv.notify", k)
            sched.yield_("cv.notify", k)

        def notify_all(self):
            self.notify(len(self._waiters))

    return ModProxy(real_threading, Thread=Thread, Condition=Condition)


# ----------------------------------------------------------------------------
# select / socketpair


class WakerEnd:
    def __init__(self, sched, fd, cap, obs):
        self.sched = sched
        self._fd = fd
        self.buf = bytearray()
        self.cap = cap
        self.peer = None
        self.closed = False
        self.blocking = True  # like a real socket until setblocking(False)
        self.obs = obs

    def fileno(self):
        return -1 if self.closed else self._fd

    def setblocking(self, flag):
        if self.closed:
            raise OSError(errno.EBADF, os.strerror(errno.EBADF))
        self.blocking = bool(flag)

    def send(self, data):
        self.sched.yield_("waker.send")
        if self.closed:
            raise OSError(errno.EBADF, os.strerror(errno.EBADF))
        p = self.peer
        if p.closed:
            raise BrokenPipeError(errno.EPIPE, os.strerror(errno.EPIPE))
        room = p.cap - len(p.buf)
        if room <= 0 and self.blocking:
            # a blocking socket waits for buffer space: only a recv() on the other end
            # (or its close) lets this thread go on
            if self.obs is not None:
                self.obs("waker.send_blocks", 0)
            self.sched.block(lambda: len(p.buf) < p.cap or p.closed or self.closed,
                             "waker.send.block")
            if self.closed:
                raise OSError(errno.EBADF, os.strerror(errno.EBADF))
            if p.closed:
                raise BrokenPipeError(errno.EPIPE, os.strerror(errno.EPIPE))
            room = p.cap - len(p.buf)
        if room <= 0:
            if self.obs is not None:
                self.obs("waker.full", 0)
            raise BlockingIOError(errno.EAGAIN, os.strerror(errno.EAGAIN))
        n = min(room, len(data))
        p.buf += data[:n]
        return n

    def recv(self, n):
        self.sched.yield_("waker.recv")
        if self.closed:
            raise OSError(errno.EBADF, os.strerror(errno.EBADF))
        if not self.buf and self.blocking and not self.peer.closed:
            self.sched.block(lambda: bool(self.buf) or self.peer.closed or self.closed,
                             "waker.recv.block")
            if self.closed:
                raise OSError(errno.EBADF, os.strerror(errno.EBADF))
        if not self.buf:
            if self.peer.closed:
                return b""
            raise BlockingIOError(errno.EAGAIN, os.strerror(errno.EAGAIN))
        d = bytes(self.buf[:n])
        del self.buf[:n]
        return d

    def readable(self):
        return bool(self.buf) or self.peer.closed

    def writable(self):
        return len(self.peer.buf) < self.peer.cap

    def close(self):
        self.closed = True


class SimSelect:
    """select.select over simulated fds.

    ``lookup(fd)`` -> object with readable()/writable(), or None when the fd
    is not open.  Wakers created through ``socketpair`` are known here.
    ``closed_wakes``: a descriptor closed *while* select sleeps makes it fail
    with EBADF (True) or is simply never reported (False); both happen on
    real systems.  A descriptor that is already closed on entry always fails.
    """

    def __init__(self, sched, lookup, waker_cap=4096, closed_wakes=True, obs=None):
        self.sched = sched
        self.lookup = lookup
        self.waker_cap = waker_cap
        self.closed_wakes = closed_wakes
        self.obs = obs
        self.wakers = {}
        self._next_waker_fd = 10
        self.in_progress = 0
        self.max_in_progress = 0
        self.calls = 0

    # socket.socketpair()
    def socketpair(self, *a, **k):
        a_ = WakerEnd(self.sched, self._next_waker_fd, self.waker_cap, self.obs)
        b_ = WakerEnd(self.sched, self._next_waker_fd + 1, self.waker_cap, self.obs)
        self._next_waker_fd += 2
        a_.peer, b_.peer = b_, a_
        self.wakers[a_._fd] = a_
        self.wakers[b_._fd] = b_
        return a_, b_

    def _obj(self, fd):
        w = self.wakers.get(fd)
        if w is not None:
            return None if w.closed else w
        return self.lookup(fd)

    def _scan(self, items, strict):
        """-> ("err", exc) | ("ok", rs, ws) | None (nothing ready)."""
        rs = []
        ws = []
        for lst, out, attr in ((items[0], rs, 0), (items[1], ws, 1)):
            for orig, fd in lst:
                o = self._obj(fd)
                if o is None:
                    if strict:
                        return ("err", OSError(errno.EBADF, os.strerror(errno.EBADF)))
                    continue
                if (o.writable() if attr else o.readable()):
                    out.append(orig)
        if rs or ws:
            return ("ok", rs, ws)
        return None

    def select(self, rlist, wlist, xlist, timeout=None):
        sched = self.sched
        blocking = timeout is None or timeout > 0
        sched.yield_("select.enter", 1 if blocking else 0)
        items = ([], [])
        for src, dst in ((rlist, items[0]), (wlist, items[1])):
            for o in src:
                fd = o if isinstance(o, int) else o.fileno()
                if fd < 0:
                    raise ValueError("file descriptor cannot be a negative integer (%d)" % fd)
                dst.append((o, fd))
        for o in xlist:
            fd = o if isinstance(o, int) else o.fileno()
            if fd < 0:
                raise ValueError("file descriptor cannot be a negative integer (%d)" % fd)
        self.calls += 1
        self.in_progress += 1
        if self.in_progress > self.max_in_progress:
            self.max_in_progress = self.in_progress
        obs = self.obs
        if obs is not None:
            obs("select.enter", (blocking, [fd for _, fd in items[0]], [fd for _, fd in items[1]]))
        res = self._scan(items, True)
        if res is None and blocking:
            strict = self.closed_wakes
            if obs is not None:
                obs("select.sleep", None)
            sched.block(lambda: self._scan(items, strict) is not None, "select.wait")
            res = self._scan(items, strict)
            if obs is not None:
                obs("select.woke", None)
        self.in_progress -= 1
        if res is None:
            res = ("ok", [], [])
        if res[0] == "err":
            sched.log.ev("select.err", res[1].errno)
            if obs is not None:
                obs("select.err", res[1].errno)
            sched.yield_("select.raise")
            raise res[1]
        sched.log.ev("select.ret", len(res[1]), len(res[2]))
        if obs is not None:
            obs("select.ret", (blocking, res[1], res[2]))
        sched.yield_("select.return")
        return res[1], res[2], []


# ----------------------------------------------------------------------------
# line-level pre-emption


def line_tracer(sched, suffixes):
    """sys.settrace function: each line of files ending in ``suffixes`` is a
    yield point (arg = line number)."""
    suffixes = tuple(suffixes)

    def local(frame, event, arg):
        if event == "line":
            sched.yield_("line", frame.f_lineno)
        return local

    def glob(frame, event, arg):
        if frame.f_code.co_filename.endswith(suffixes):
            return local
        return None

    return glob


# ----------------------------------------------------------------------------
# forked execution
#
# Real threads cannot be killed: a run that ends in a deadlock, a step cap or with
# a thread still alive leaves parked OS threads behind.  So threaded runs execute
# in a forked child and the verdict comes back through a pipe as JSON.
#
#   VERIF_THREADS_FORK=reuse (default)  one child per parent process (pool worker) runs
#       scenarios back to back; it is thrown away (and a new one forked on demand) as
#       soon as a run ends *dirty* (verdict delivered from a fatal path, by a thread
#       other than the main one, with ``clean=False``, or any exception in the harness)
#       or after ``max_runs`` runs.  Parked threads therefore still die with their
#       process, but the fork (5-300 ms on a loaded box, and not parallel) is amortised.
#       A run that ends in a deadlock / cap / with a thread still parked may instead be
#       *abandoned in place* (ChildResult.can_leak, at most ``max_leaky`` times per
#       child): its scheduler goes dead, the main thread unwinds, the other threads of
#       that run stay parked on private locks nobody will ever release (inert), and the
#       child serves on.  Without this a planted bug that deadlocks most runs costs one
#       fork per run.
#   VERIF_THREADS_FORK=each             one child per scenario; ``run(..., fresh=True)``
#       (used for replays) does that whatever the mode.
#
# A child that does not answer within ``wall`` seconds is killed and the run is a
# harness error (RuntimeError), never a verdict.


_PARENT_FDS = set()  # parent-side pipe ends of live server children


def _close_inherited():
    # a forked child (ours or anybody's) must not keep another child's request pipe open,
    # or that child never sees EOF when its parent is done with it
    for fd in list(_PARENT_FDS):
        try:
            os.close(fd)
        except OSError:
            pass
    _PARENT_FDS.clear()


os.register_at_fork(after_in_child=_close_inherited)


def _write_all(fd, data):
    mv = memoryview(data)
    while mv:
        n = os.write(fd, mv)
        mv = mv[n:]


def _frame(obj):
    data = json.dumps(obj).encode()
    return len(data).to_bytes(4, "big") + data


class ChildResult:
    """Lets any thread of the child deliver the run's result exactly once."""

    def __init__(self, wfd, reuse=False, leak_ok=False):
        self.wfd = wfd
        self.reuse = reuse
        self.sent = False
        self.leak_ok = leak_ok
        self.leaked = False
        self.main_ident = _thread.get_ident()

    def can_leak(self):
        """May this run be abandoned in place (parked threads left behind, inert) instead
        of costing a process?  Only in a reused child and only a bounded number of times."""
        return self.reuse and self.leak_ok

    def send(self, obj, clean=True, leaked=False):
        if self.sent:  # pragma: no cover - a second thread after the verdict
            os._exit(0)
        self.sent = True
        if not self.reuse:
            _write_all(self.wfd, json.dumps(obj).encode())
            os._exit(0)
        if leaked and self.leak_ok:
            self.leaked = True
            clean = True
        keep = bool(clean) and _thread.get_ident() == self.main_ident
        _write_all(self.wfd, _frame({"r": obj, "more": keep}))
        if not keep:
            os._exit(0)
        # clean: return to the caller, which unwinds normally to the serve loop


def _wait_readable(fd, deadline):
    import time
    left = deadline - time.monotonic()
    if left <= 0:
        return False
    ready, _, _ = _os_select([fd], [], [], left)
    return bool(ready)


def _kill(pid):
    try:
        os.kill(pid, signal.SIGKILL)
    except ProcessLookupError:
        pass
    try:
        os.waitpid(pid, 0)
    except ChildProcessError:
        pass


def run_forked(child_fn, wall=20.0):
    """Run ``child_fn(result: ChildResult)`` in a forked child and return the
    JSON object it delivered (one child per call)."""
    import time
    r, w = os.pipe()
    sys.stdout.flush()
    sys.stderr.flush()
    pid = _os_fork()
    if pid == 0:
        try:
            import gc
            gc.disable()
            os.close(r)
            res = ChildResult(w)
            try:
                child_fn(res)
                res.send({"harness_error": "child function returned without a result"})
            except SystemExit:
                raise
            except BaseException:  # noqa: BLE001
                res.sent = False
                res.send({"harness_error": traceback.format_exc()})
        finally:
            os._exit(0)
    os.close(w)
    chunks = []
    deadline = time.monotonic() + wall
    while True:
        if not _wait_readable(r, deadline):
            _kill(pid)
            os.close(r)
            raise RuntimeError(f"threaded run exceeded the {wall:.0f}s wall-clock watchdog "
                               "(harness error, not a verdict)")
        b = os.read(r, 1 << 16)
        if not b:
            break
        chunks.append(b)
    os.close(r)
    _, st = os.waitpid(pid, 0)
    data = b"".join(chunks)
    if not data:
        raise RuntimeError(f"threaded run: child died without a result (wait status {st})")
    obj = json.loads(data)
    if "harness_error" in obj:
        raise RuntimeError("threaded run: exception in child:\n" + obj["harness_error"])
    return obj


class ForkRunner:
    """``handler(request, result)`` runs one scenario in a child process and calls
    ``result.send(verdict, clean=...)``.  ``run(request)`` returns the verdict."""

    def __init__(self, handler, wall=30.0, max_runs=250, max_leaky=40):
        self.handler = handler
        self.wall = wall
        self.max_runs = max_runs
        self.max_leaky = max_leaky  # abandoned-in-place runs one child may accumulate
        self.owner = None
        self.pid = None
        self.rfd = self.wfd = None
        self.buf = b""
        self.served = 0

    @staticmethod
    def mode():
        m = os.environ.get("VERIF_THREADS_FORK", "reuse")
        return "each" if m in ("each", "scenario") else "reuse"

    def run(self, request, fresh=False):
        """``fresh``: run in a child of its own whatever the mode (replays)."""
        if fresh or self.mode() == "each":
            h = self.handler
            return run_forked(lambda result: h(request, result), wall=self.wall)
        return self._run_reuse(request)

    # -- reuse mode -----------------------------------------------------------
    def _drop(self, kill):
        """Forget the current child.  kill=False only when the child is known to be
        exiting by itself (it said so, or it has served max_runs)."""
        if self.pid is not None and self.owner == os.getpid():
            for fd in (self.rfd, self.wfd):
                _PARENT_FDS.discard(fd)
                try:
                    os.close(fd)
                except OSError:
                    pass
            if kill:
                _kill(self.pid)
            else:
                try:
                    os.waitpid(self.pid, 0)
                except ChildProcessError:
                    pass
        self.pid = self.rfd = self.wfd = None
        self.buf = b""
        self.served = 0

    def close(self):
        self._drop(kill=True)

    def _spawn(self):
        import atexit
        if self.owner != os.getpid():
            # first use in this process (an inherited child belongs to the parent)
            self.pid = None
            atexit.register(self.close)
        self.owner = os.getpid()
        c2p_r, c2p_w = os.pipe()
        p2c_r, p2c_w = os.pipe()
        sys.stdout.flush()
        sys.stderr.flush()
        pid = _os_fork()
        if pid == 0:
            try:
                os.close(c2p_r)
                os.close(p2c_w)
                self._serve(p2c_r, c2p_w)
            finally:
                os._exit(0)
        os.close(c2p_w)
        os.close(p2c_r)
        self.pid, self.rfd, self.wfd = pid, c2p_r, p2c_w
        _PARENT_FDS.add(c2p_r)
        _PARENT_FDS.add(p2c_w)
        self.buf = b""
        self.served = 0

    def _serve(self, rfd, wfd):
        import gc
        gc.disable()
        buf = b""
        n = 0
        leaks = 0
        while True:
            while len(buf) < 4 or len(buf) < 4 + int.from_bytes(buf[:4], "big"):
                b = os.read(rfd, 1 << 16)
                if not b:
                    os._exit(0)  # parent gone or done with us
                buf += b
            ln = int.from_bytes(buf[:4], "big")
            request = json.loads(buf[4:4 + ln])
            buf = buf[4 + ln:]
            n += 1
            last = n >= self.max_runs
            res = ChildResult(wfd, reuse=True, leak_ok=leaks < self.max_leaky)
            try:
                self.handler(request, res)
                if res.leaked:
                    leaks += 1
                if not res.sent:
                    res.send({"harness_error": "child function returned without a result"},
                             clean=False)
            except SystemExit:
                raise
            except BaseException:  # noqa: BLE001
                if res.sent:
                    # the verdict is out but unwinding failed: do not serve another run
                    os._exit(0)
                res.send({"harness_error": traceback.format_exc()}, clean=False)
            if last:
                os._exit(0)
            if n % 16 == 0:
                gc.collect()

    def _read_frame(self, deadline):
        while len(self.buf) < 4 or len(self.buf) < 4 + int.from_bytes(self.buf[:4], "big"):
            if not _wait_readable(self.rfd, deadline):
                return "timeout"
            b = os.read(self.rfd, 1 << 16)
            if not b:
                return None
            self.buf += b
        ln = int.from_bytes(self.buf[:4], "big")
        obj = json.loads(self.buf[4:4 + ln])
        self.buf = self.buf[4 + ln:]
        return obj

    def _run_reuse(self, request):
        import time
        if self.pid is None or self.owner != os.getpid():
            self._spawn()
        try:
            _write_all(self.wfd, _frame(request))
        except BrokenPipeError:
            self._drop(kill=True)
            self._spawn()
            _write_all(self.wfd, _frame(request))
        msg = self._read_frame(time.monotonic() + self.wall)
        if msg == "timeout":
            self._drop(kill=True)
            raise RuntimeError(f"threaded run exceeded the {self.wall:.0f}s wall-clock watchdog "
                               "(harness error, not a verdict)")
        if msg is None:
            self._drop(kill=True)
            raise RuntimeError("threaded run: child died without a result")
        self.served += 1
        if not msg["more"] or self.served >= self.max_runs:
            self._drop(kill=False)
        obj = msg["r"]
        if "harness_error" in obj:
            self._drop(kill=True)
            raise RuntimeError("threaded run: exception in child:\n" + obj["harness_error"])
        return obj
