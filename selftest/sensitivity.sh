#!/bin/sh
# Sensitivity self-test: every planted bug in selftest/mutants/<Cxx>-*.patch and every
# seeded change in seeded/<id>/patch.diff must be DETECTED by its property's quick check.
# usage: selftest/sensitivity.sh [Cxx ...]      (default: all)
cd "$(dirname "$0")/.." || exit 2
want="$*"
fail=0; n=0
for m in selftest/mutants/*.patch seeded/*/patch.diff; do
  [ -f "$m" ] || continue
  case "$m" in
    seeded/*) P=$(sed -n 's/.*"property": *"\(C[0-9]*\)".*/\1/p' "$(dirname "$m")/meta.json" | head -1);;
    *) P=$(basename "$m" | cut -d- -f1);;
  esac
  [ -n "$want" ] && ! echo " $want " | grep -q " $P " && continue
  [ -f "props/$(echo "$P" | tr 'C' 'c').py" ] || { echo "SKIP $m (no module for $P)"; continue; }
  n=$((n+1))
  out=$(selftest/mutant.sh "$m" "$P" quick ${VERIF_MUT_ARGS:-} 2>&1 | tail -1)
  echo "$out" | sed "s|^mutant=[^ ]*|mutant=$m|"
  echo "$out" | grep -q DETECTED || fail=$((fail+1))
done
echo "sensitivity: $n mutants, $fail not detected"
[ $fail = 0 ]
