"""Refresh expected_digest / log_head / code of findings/C14-C16 replays after /repo changed (digests are a
function of the Tornado tree).  Run: PYTHONHASHSEED=0 TORNADO_VERIF=1 /venv/bin/python -B selftest/regen_ws_findings.py"""
import sys, os, json, glob, importlib
sys.path[:0] = ["/repo", "/verif"]
from sim import runner
from sim.tape import jsonable
code = runner.code_fingerprint()
for f in sorted(glob.glob("/verif/findings/C1[456]-*/*.json")):
    d = json.load(open(f))
    m = importlib.import_module("props." + d["property"].lower())
    r = m.run(d["scenario"])
    same = [v for v in r["violations"] if v["rule"] == d["violation"]["rule"]]
    if not same:
        # fixed in /repo since: keep the recorded violation, note the tree on which it stopped
        d["no_longer_reproduces_on"] = code
        d["expected_digest"] = r["stats"]["digest"]; d["code"] = code
        d["log_head"] = jsonable(r.get("log_head", [])[:120])
        json.dump(d, open(f, "w"), indent=1, sort_keys=True)
        print("fixed-on-head", d["violation"]["key"], os.path.relpath(f, "/verif/findings"))
        continue
    d.pop("no_longer_reproduces_on", None)
    d["violation"] = same[0]; d["all_violations"] = r["violations"]
    d["expected_digest"] = r["stats"]["digest"]; d["code"] = code
    d["log_head"] = jsonable(r.get("log_head", [])[:120])
    json.dump(d, open(f, "w"), indent=1, sort_keys=True)
    print("ok", same[0]["key"], os.path.relpath(f, "/verif/findings"))
