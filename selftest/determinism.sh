#!/bin/sh
# Determinism self-test: same seeds -> same scenario hashes and run digests
# in-process twice, across PYTHONHASHSEED values, across worker counts.
# usage: selftest/determinism.sh C11 [count]
cd "$(dirname "$0")/.." || exit 2
P="$1"; N="${2:-300}"
T=$(mktemp -d /var/tmp/verif-det-XXXXXX)
VERIF_HASHSEED=0 ./check "$P" digests --count "$N" --jobs 1 > "$T/a" || { echo "NONDET in-process (hashseed 0)"; grep NONDET "$T/a" | head -3; rm -rf "$T"; exit 1; }
VERIF_HASHSEED=1 ./check "$P" digests --count "$N" --jobs 16 | sort -n -k1,1 -k2,2 > "$T/b"
VERIF_HASHSEED=random ./check "$P" digests --count "$N" --jobs 5 | sort -n -k1,1 -k2,2 > "$T/c"
sort -n -k1,1 -k2,2 "$T/a" > "$T/a2"
rc=0
cmp -s "$T/a2" "$T/b" || { echo "DIFF hashseed0/jobs1 vs hashseed1/jobs16"; diff "$T/a2" "$T/b" | head -5; rc=1; }
cmp -s "$T/a2" "$T/c" || { echo "DIFF hashseed0/jobs1 vs random/jobs5"; diff "$T/a2" "$T/c" | head -5; rc=1; }
[ $rc = 0 ] && echo "determinism $P: $(wc -l < "$T/a") runs x2 in-process, x3 configurations: identical"
rm -rf "$T"
exit $rc
