#!/bin/sh
# Run a check against a scratch copy of /repo with a patch applied.
# usage: selftest/mutant.sh <patch.diff> <Cxx> [quick|thorough] [extra ./check args]
# exit: 0 = mutant DETECTED (check exited 1 with a VIOLATION line and replay reproduces),
#       1 = missed (check exited 0), 2 = harness error / patch does not apply.
cd "$(dirname "$0")/.." || exit 2
PATCH=$(readlink -f "$1"); P="$2"; TIER="${3:-quick}"; shift 3 2>/dev/null || shift $#
S=$(mktemp -d /var/tmp/verif-scratch-mut-XXXXXX)
trap 'rm -rf "$S"' EXIT
mkdir -p "$S" && cp -r /repo/tornado "$S/tornado" && rm -rf "$S/tornado/test" "$S"/tornado/__pycache__
( cd "$S" && patch -p1 -s --no-backup-if-mismatch < "$PATCH" ) || { echo "PATCH-FAILED $PATCH"; exit 2; }
OUT=$(VERIF_REPO="$S" ./check "$P" "$TIER" "$@" 2>&1); RC=$?
echo "$OUT" | tail -6
if [ $RC = 1 ]; then
  R=$(echo "$OUT" | sed -n 's/^VIOLATION property=[^ ]* replay=//p' | head -1)
  VERIF_REPO="$S" ./check "$P" --replay "$R" > "$S/replay.out" 2>&1; RRC=$?
  # and the replay must NOT fail on the unchanged tree (otherwise it is not this mutant)
  ./check "$P" --replay "$R" > "$S/replay0.out" 2>&1; R0=$?
  echo "mutant=$(basename "$PATCH") check=$P DETECTED replay_rc_mutant=$RRC replay_rc_clean=$R0 replay=$R"
  [ $RRC = 1 ] && exit 0
  exit 2
elif [ $RC = 0 ]; then
  echo "mutant=$(basename "$PATCH") check=$P MISSED"
  exit 1
else
  echo "mutant=$(basename "$PATCH") check=$P HARNESS-ERROR rc=$RC"
  exit 2
fi
