"""Strict reference reader for HTTP/1.x *request* streams (oracle for C01/C04).

Independent of Tornado (imports nothing from it).  Line-based, RFC 9112 strict,
plus the three leniencies Tornado documents for the start-line / field section:

  * a bare LF ends a line (an immediately preceding CR is dropped),
  * obsolete line folding (a field line starting with SP/HTAB continues the
    previous field; the fold is replaced by one SP),
  * empty line(s) before the request line are ignored.

``read_requests(data, ...)`` returns a ``Result``:

  messages   complete messages in order (``Msg``)
  end        "clean"      stream ended exactly on a message boundary
             "closed"     the last message forbids persistence: the rest of the
                          stream (``Result.rest`` bytes) is not HTTP for this reader
             "incomplete" stream ended inside a message
             "reject"     message number len(messages) is malformed / over a limit
  reason     why (reject / incomplete), stage "head" | "semantic" | "body"
  partial    for incomplete/reject after a well-formed head: a ``Msg`` with the
             body bytes that were well-framed before the stop (a streaming
             delegate may have seen a prefix of exactly those)

Every ``Msg`` carries ``strict``: features for which the RFC accepts the message
but the Tornado documentation/source is *knowingly stricter* (chunk extensions,
trailers, OWS before a comma in a Content-Length list, >= 2 leading blank lines,
obs-fold inside a framing header, ...).  For a message with a non-empty
``strict`` set the caller may accept "rejected" as well as "accepted with
exactly this framing" - nothing else.  ``features`` is informational (reach
probes, non-triviality).

``close``: "must" (the RFC forbids reuse after this message), "may" (reuse is
allowed by the RFC but a server that treats every non-1.1 version like 1.0 is
entitled to close) or "no".
"""

import re
import zlib

_TCHAR = frozenset(b"!#$%&'*+-.^_`|~0123456789ABCDEFGHIJKLMNOPQRSTUVWXYZ"
                   b"abcdefghijklmnopqrstuvwxyz")
_DIGITS = frozenset(b"0123456789")
_HEX = frozenset(b"0123456789abcdefABCDEF")
_OWS = b" \t"

_HOST_RE = re.compile(
    rb"(?:\[[0-9A-Fa-f:.]+\]|(?:[A-Za-z0-9\-._~!$&'()*+,;=]|%[0-9A-Fa-f]{2})*)(?::[0-9]*)?")
_HOST_LOOSE_RE = re.compile(
    rb"(?:[\[\]:]|[A-Za-z0-9\-._~!$&'()*+,;=]|%[0-9A-Fa-f]{2})*(?::[0-9]*)?")
_VERSION_RE = re.compile(rb"HTTP/([0-9])\.([0-9])")


def _is_token(b):
    if not b:
        return False
    for c in b:
        if c not in _TCHAR:
            return False
    return True


def _is_field_value(b):
    for c in b:
        if not (c == 9 or c == 32 or 0x21 <= c <= 0x7E or c >= 0x80):
            return False
    return True


def _is_target(b):
    if not b:
        return False
    for c in b:
        if not (0x21 <= c <= 0x7E or c >= 0x80):
            return False
    return True


class Msg:
    __slots__ = ("method", "target", "version", "headers", "body", "start", "head_end",
                 "end", "close", "strict", "features", "framing", "wire_body_len",
                 "body_limit", "block_len")

    def __init__(self):
        self.method = self.target = self.version = None
        self.headers = []  # [(name, value)] as str (latin-1), wire order
        self.body = b""
        self.start = self.head_end = self.end = 0
        self.close = "no"
        self.strict = set()
        self.features = set()
        self.framing = "none"  # none | cl | chunked
        self.wire_body_len = 0  # de-chunked, still compressed
        self.body_limit = None
        self.block_len = 0  # bytes from message start (incl. blank lines) to end of head

    def header_map(self):
        d = {}
        for k, v in self.headers:
            d.setdefault(k.lower(), []).append(v.strip(" \t"))
        return d

    def summary(self):
        return (self.method, self.target, self.version, self.header_map(), self.body)


class Result:
    __slots__ = ("messages", "end", "reason", "stage", "partial", "end_strict", "pos",
                 "features", "rest", "stop_block_len")

    def __init__(self):
        self.messages = []
        self.end = "clean"
        self.reason = None
        self.stage = None
        self.partial = None
        self.end_strict = set()
        self.pos = 0
        self.features = set()
        self.rest = b""
        self.stop_block_len = None  # size of the header block of the message that stopped us


class _Stop(Exception):
    def __init__(self, kind, reason, stage):
        self.kind = kind  # "incomplete" | "reject"
        self.reason = reason
        self.stage = stage


def _line(data, pos, feats):
    """One start-line/field line: (content without terminator, next pos) or None."""
    lf = data.find(b"\n", pos)
    if lf < 0:
        return None
    if lf > pos and data[lf - 1] == 13:
        return data[pos:lf - 1], lf + 1
    feats.add("bare_lf")
    return data[pos:lf], lf + 1


def _fields(data, pos, msg, stage, section):
    """Field lines up to the empty line.  Returns (list[(name, value)], pos)."""
    out = []
    folded_names = []
    while True:
        r = _line(data, pos, msg.features)
        if r is None:
            raise _Stop("incomplete", section + "_unterminated", stage)
        line, pos = r
        if not line:
            return out, pos, folded_names
        if b"\r" in line:
            raise _Stop("reject", "bare_cr_in_field_line", stage)
        if line[0] in _OWS:
            if not out:
                raise _Stop("reject", "continuation_without_field", stage)
            cont = line.strip(_OWS)
            if not _is_field_value(cont):
                raise _Stop("reject", "bad_char_in_field_value", stage)
            name, value = out[-1]
            out[-1] = (name, value + b" " + cont)
            msg.features.add("obs_fold")
            folded_names.append(name.lower())
            continue
        colon = line.find(b":")
        if colon < 0:
            raise _Stop("reject", "field_line_without_colon", stage)
        name = line[:colon]
        if not _is_token(name):
            raise _Stop("reject", "bad_field_name", stage)
        value = line[colon + 1:].strip(_OWS)
        if not _is_field_value(value):
            raise _Stop("reject", "bad_char_in_field_value", stage)
        out.append((name, value))


def _num_detail(s):
    """Why a would-be number is not 1*DIGIT / 1*HEXDIG (keeps oracle keys specific)."""
    if not s:
        return "empty"
    if any(c >= 0x80 for c in s):
        return "obs_text"
    if s[:1] in (b"+", b"-"):
        return "sign"
    if b"_" in s:
        return "underscore"
    if s[:2].lower() == b"0x":
        return "0x"
    if any(c in b" \t" for c in s):
        return "whitespace"
    return "other"


def _values(fields, lname):
    return [v.strip(_OWS) for k, v in fields if k.lower() == lname]


def _content_length(vals, msg):
    combined = b",".join(vals)
    elems = combined.split(b",")
    if len(elems) > 1:
        msg.features.add("cl_list")
    nums = set()
    for i, e in enumerate(elems):
        s = e.strip(_OWS)
        if not s or any(c not in _DIGITS for c in s):
            raise _Stop("reject", "content_length_not_a_number:" + _num_detail(s), "semantic")
        if e.rstrip(_OWS) != e:
            # "5 ,5": legal list syntax; Tornado's split leaves "5 " != "5"
            msg.strict.add("cl_ows_before_comma")
        # Compare numbers by their canonical spelling: CPython refuses int() on more than
        # 4300 decimal digits (sys.int_max_str_digits) and the reader must not depend on it.
        nums.add(s.lstrip(b"0") or b"0")
        if len(s) > 4300:
            # a valid 1*DIGIT (possibly a small number behind thousands of zeros), but an
            # implementation may refuse a field it cannot convert: refusing is acceptable
            msg.strict.add("cl_over_4300_digits")
            msg.features.add("cl_very_long_digits")
        if len(elems) > 1 and s != elems[0].strip(_OWS):
            # same number, different spelling ("05,5"): RFC says "same decimal value"
            msg.strict.add("cl_list_spelling")
    if len(nums) != 1:
        raise _Stop("reject", "conflicting_content_length", "semantic")
    canon = nums.pop()
    if len(canon) > 40:
        return 10 ** 40  # exact value irrelevant: above every limit, never satisfiable
    return int(canon)


def _transfer_encoding(vals, msg):
    combined = b",".join(vals)
    elems = [e.strip(_OWS) for e in combined.split(b",")]
    if any(not e for e in elems):
        msg.strict.add("te_empty_list_element")
        elems = [e for e in elems if e]
    if not elems:
        raise _Stop("reject", "empty_transfer_encoding", "semantic")
    if len(elems) == 1 and elems[0].lower() == b"chunked":
        if elems[0] != b"chunked":
            msg.features.add("te_case")
        return True
    raise _Stop("reject", "unsupported_transfer_coding", "semantic")


def _chunked(data, pos, msg, limit):
    """De-chunk from pos.  Returns (body, pos); msg.body holds the prefix on _Stop."""
    parts = []
    total = 0
    try:
        while True:
            crlf = data.find(b"\r\n", pos)
            if crlf < 0:
                raise _Stop("incomplete", "chunk_size_line_unterminated", "body")
            line = data[pos:crlf]
            if crlf + 2 - pos > 64:
                msg.strict.add("chunk_line_over_64")
            semi = line.find(b";")
            size_s = line if semi < 0 else line[:semi]
            if semi >= 0:
                ext = line[semi:]
                # chunk-ext = *( BWS ";" BWS name [ BWS "=" BWS value ] ): accept a
                # conservative subset, anything else is malformed
                if not re.fullmatch(rb"(?:;[!#$%&'*+\-.^_`|~0-9A-Za-z]+"
                                    rb"(?:=(?:[!#$%&'*+\-.^_`|~0-9A-Za-z]+|\"[^\"\\\r\n]*\"))?)+",
                                    ext):
                    raise _Stop("reject", "bad_chunk_extension", "body")
                msg.strict.add("chunk_ext")
            if not size_s or any(c not in _HEX for c in size_s):
                raise _Stop("reject", "bad_chunk_size:" + _num_detail(size_s), "body")
            n = int(size_s, 16)
            pos = crlf + 2
            if n == 0:
                msg.features.add("last_chunk_" + ("plain" if size_s == b"0" else "zeros"))
                break
            total += n
            if limit is not None and total > limit:
                raise _Stop("reject", "body_too_large", "body")
            if len(data) - pos < n:
                parts.append(data[pos:])
                raise _Stop("incomplete", "chunk_data_short", "body")
            parts.append(data[pos:pos + n])
            pos += n
            term = data[pos:pos + 2]
            if term != b"\r\n":
                if len(term) < 2 and b"\r\n".startswith(term):
                    raise _Stop("incomplete", "chunk_terminator_short", "body")
                raise _Stop("reject", "bad_chunk_terminator", "body")
            pos += 2
            msg.features.add("chunks")
        # trailer section
        tmsg = Msg()
        trailers, pos2, _ = _fields(data, pos, tmsg, "body", "trailer")
        if trailers:
            msg.strict.add("trailers")
        if "bare_lf" in tmsg.features:
            # Tornado reads exactly CRLF after the last chunk
            msg.strict.add("bare_lf_in_trailer_section")
        return b"".join(parts), pos2
    except _Stop:
        msg.body = b"".join(parts)
        raise


def _gunzip(body, limit, msg):
    d = zlib.decompressobj(16 + zlib.MAX_WBITS)
    try:
        out = d.decompress(body)
        out += d.flush()
    except zlib.error:
        raise _Stop("reject", "bad_gzip", "body")
    if limit is not None and len(out) > limit:
        msg.body = out[:limit]
        raise _Stop("reject", "decompressed_body_too_large", "body")
    return out


def _gunzip_prefix(body, limit):
    d = zlib.decompressobj(16 + zlib.MAX_WBITS)
    try:
        out = d.decompress(body)
    except zlib.error:
        return b""
    return out if limit is None else out[:limit]


def read_requests(data, *, max_header_size=None, max_body_size=None, body_limit_for=None,
                  decompress=False, http10_te_closes=True):
    """See module docstring.  ``body_limit_for(msg)`` -> per-request limit or None
    (then ``max_body_size`` applies).  ``http10_te_closes=False`` drops the RFC 9112 6.1 rule
    "Transfer-Encoding in an HTTP/1.0 message => close after it" (used to judge what follows
    once that rule is known to be ignored); ``"may"`` makes the close optional."""
    data = bytes(data)
    res = Result()
    pos = 0
    n = len(data)
    while True:
        msg = Msg()
        msg.start = pos
        stage = "head"
        gz = None
        try:
            # ---- leading empty lines
            blanks = 0
            while True:
                if pos >= n:
                    if blanks >= 2:
                        res.end_strict.add("multi_blank_at_end")
                    if blanks:
                        res.features.add("blank_at_end")
                    res.end = "clean"
                    res.pos = pos
                    return res
                if data[pos] == 10:
                    pos += 1
                    msg.features.add("bare_lf")
                elif data[pos] == 13 and pos + 1 < n and data[pos + 1] == 10:
                    pos += 2
                elif data[pos] == 13 and pos + 1 >= n:
                    raise _Stop("incomplete", "inside_leading_blank_line", "head")
                else:
                    break
                blanks += 1
            if blanks:
                msg.features.add("leading_blank")
            if blanks >= 2:
                msg.strict.add("multi_blank")
            # ---- header block limit (measured like a reader that searches the blank line
            # from the first byte it has not consumed yet)
            r = _line(data, pos, msg.features)
            if r is None:
                if max_header_size is not None and n - msg.start > max_header_size:
                    raise _Stop("reject", "header_too_large", "head")
                raise _Stop("incomplete", "request_line_unterminated", "head")
            line, pos = r
            # ---- request line
            if b"\r" in line:
                if line.strip(b"\r").find(b"\r") >= 0:
                    rl_err = "bare_cr_in_request_line"
                elif line.startswith(b"\r"):
                    rl_err = "bare_cr_before_request_line"
                else:
                    rl_err = "extra_cr_after_request_line"
            else:
                parts = line.split(b" ")
                rl_err = None
                if len(parts) != 3:
                    rl_err = "request_line_shape"
                elif not _is_token(parts[0]):
                    rl_err = "bad_method"
                elif not _is_target(parts[1]):
                    rl_err = "bad_target"
                else:
                    m = _VERSION_RE.fullmatch(parts[2])
                    if m is None:
                        rl_err = "bad_version"
                    elif m.group(1) != b"1":
                        rl_err = "unsupported_major_version"
            # the field section is located before anything is judged, so that the size
            # limit is applied to the whole block as a unit
            try:
                fields, pos, folded = _fields(data, pos, msg, "head", "head")
            except _Stop as s:
                if max_header_size is not None and s.kind == "incomplete" \
                        and n - msg.start > max_header_size:
                    raise _Stop("reject", "header_too_large", "head")
                if max_header_size is not None and s.kind == "reject":
                    # malformed *and* maybe too large: a reject either way
                    pass
                if rl_err is not None and s.kind == "reject":
                    raise _Stop("reject", rl_err, "head")
                raise
            msg.head_end = pos
            msg.block_len = pos - msg.start
            if max_header_size is not None and msg.block_len > max_header_size:
                raise _Stop("reject", "header_too_large", "head")
            if rl_err is not None:
                raise _Stop("reject", rl_err, "head")
            msg.method = parts[0].decode("latin1")
            msg.target = parts[1].decode("latin1")
            msg.version = parts[2].decode("latin1")
            minor = int(parts[2][-1:])
            msg.headers = [(k.decode("latin1"), v.decode("latin1")) for k, v in fields]
            stage = "semantic"
            res.partial = msg
            gz = None
            if decompress:
                ce = _values(fields, b"content-encoding")
                if ce and b",".join(ce).lower() == b"gzip":
                    # a decompressing server shows the application the decoded body and
                    # renames the header (Tornado: X-Consumed-Content-Encoding)
                    gz = b",".join(ce).decode("latin1")
                    msg.features.add("gzip")
                    msg.headers = [(k, v) for k, v in msg.headers
                                   if k.lower() != "content-encoding"]
                    msg.headers.append(("X-Consumed-Content-Encoding", gz))
            # ---- Host
            hosts = _values(fields, b"host")
            if len(hosts) > 1:
                raise _Stop("reject", "multiple_host", stage)
            if not hosts:
                if minor >= 1:
                    raise _Stop("reject", "missing_host", stage)
            else:
                if _HOST_RE.fullmatch(hosts[0]) is None:
                    # sub-class: only the placement of brackets/colons is wrong (Tornado's
                    # documented simplification of the uri-host grammar accepts those)
                    if _HOST_LOOSE_RE.fullmatch(hosts[0]) is not None:
                        raise _Stop("reject", "invalid_host:bracket_or_colon_placement", stage)
                    raise _Stop("reject", "invalid_host", stage)
                if b"," in hosts[0]:
                    msg.strict.add("host_comma")
                if b"host" in folded:
                    msg.strict.add("obs_fold_in_framing_header")
            # ---- framing
            cls = _values(fields, b"content-length")
            tes = _values(fields, b"transfer-encoding")
            for nm in (b"content-length", b"transfer-encoding"):
                if nm in folded:
                    msg.strict.add("obs_fold_in_framing_header")
            limit = max_body_size
            if body_limit_for is not None:
                lv = body_limit_for(msg)
                if lv is not None:
                    limit = lv
            msg.body_limit = limit
            chunked = False
            length = None
            if tes and cls:
                raise _Stop("reject", "content_length_with_transfer_encoding", stage)
            if tes:
                chunked = _transfer_encoding(tes, msg)
            elif cls:
                length = _content_length(cls, msg)
                if limit is not None and length > limit:
                    raise _Stop("reject", "body_too_large", stage)
            # ---- persistence
            conn = [t.strip().lower() for v in _values(fields, b"connection")
                    for t in v.decode("latin1").split(",")]
            if minor >= 1:
                if "close" in conn:
                    msg.close = "must"
                elif minor >= 2:
                    msg.close = "may"
            else:
                if "keep-alive" not in conn:
                    msg.close = "must"
                elif not (cls or tes or msg.method in ("GET", "HEAD")):
                    msg.close = "may"
            if tes and minor == 0:
                # RFC 9112 6.1: Transfer-Encoding in an HTTP/1.0 message: framing is
                # to be considered faulty; close after processing
                msg.features.add("te_in_http10")
                if http10_te_closes == "may":
                    if msg.close == "no":
                        msg.close = "may"
                elif http10_te_closes:
                    msg.close = "must"
            # ---- body
            stage = "body"
            if chunked:
                msg.framing = "chunked"
                body, pos = _chunked(data, pos, msg, limit)
            elif length is not None:
                msg.framing = "cl"
                if n - pos < length:
                    msg.body = data[pos:]
                    raise _Stop("incomplete", "body_short", stage)
                body = data[pos:pos + length]
                pos += length
            else:
                body = b""
            msg.wire_body_len = len(body)
            if gz is not None:
                msg.body = body
                body = _gunzip(body, limit, msg)
            msg.body = body
            msg.end = pos
        except _Stop as s:
            if stage == "body" and gz is not None and not s.reason.startswith("decompressed") \
                    and s.reason != "bad_gzip":
                msg.body = _gunzip_prefix(msg.body, limit)
            res.end = s.kind
            res.reason = s.reason
            res.stop_block_len = msg.block_len or None
            res.stage = s.stage
            res.pos = pos
            if s.stage == "head":
                res.partial = None
            else:
                res.partial = msg
            res.features |= msg.features
            res.features.add(s.kind + ":" + s.reason)
            if s.kind == "reject" or s.stage != "head":
                # tags of the message that stopped the reader still matter to callers
                res.end_strict |= msg.strict
            return res
        res.partial = None
        res.messages.append(msg)
        res.features |= msg.features
        if msg.body:
            res.features.add("body")
        for t in msg.strict:
            res.features.add("strict:" + t)
        if msg.close == "must":
            res.end = "closed"
            res.pos = pos
            res.rest = data[pos:]
            return res
