"""Reference for C32: what request.remote_ip / request.protocol may be.

A pure function of (socket peer address as Tornado reports it, connection
protocol, THIS request's header lines, trusted_downstream).  It never looks at
earlier requests, so "request k is independent of requests < k" is checked by
comparing every observation with it.

Where the statement of C32 fixes the answer the result is a single value; where
it is silent or ambiguous the result is the set of readings that the statement
permits (the pinned Tornado's choice is always among them, see the comments).

From the property text:
  * remote_ip comes from the proxy headers only when they supply a numeric IP;
    X-Real-Ip has precedence over the rightmost X-Forwarded-For entry that is
    not in trusted_downstream; otherwise it is the socket address;
  * protocol is "http" or "https".
From the code (httpserver._HTTPRequestContext._apply_xheaders), accepted because
the text is silent:
  * repeated header lines are one comma-joined value;
  * list entries are compared with trusted_downstream as *strings* after
    str.strip() (all Unicode white space, so latin-1 NBSP / NEL too);
  * "numeric IP" is netutil.is_valid_ip: getaddrinfo(AI_NUMERICHOST), which
    also accepts the inet_aton short forms ("127.1", "1", "0x7f.1");
  * X-Scheme wins over X-Forwarded-Proto; of a comma list only the last entry
    counts (both headers); the value must be exactly "http" or "https",
    otherwise the connection's own protocol stays.
Ambiguous in the text (both readings accepted):
  * X-Real-Ip present but not a valid IP while X-Forwarded-For supplies one
    (Tornado: socket address);  same for X-Scheme vs X-Forwarded-Proto;
  * every X-Forwarded-For entry is trusted (Tornado: the leftmost entry).
"""

import functools
import socket

_VALID = ("http", "https")


@functools.lru_cache(maxsize=4096)
def valid_ip(s):
    if not s or "\x00" in s:
        return False
    try:
        return bool(socket.getaddrinfo(s, 0, socket.AF_UNSPEC, socket.SOCK_STREAM, 0,
                                       socket.AI_NUMERICHOST))
    except socket.gaierror:
        return False
    except UnicodeError:
        return False


@functools.lru_cache(maxsize=4096)
def strict_ip(s):
    """Canonical textual forms only (inet_pton); used for a probe, not a verdict."""
    for fam in (socket.AF_INET, socket.AF_INET6):
        try:
            socket.inet_pton(fam, s)
            return True
        except (OSError, ValueError, UnicodeError):
            pass
    return False


def combined(lines, name):
    """Comma-joined value of all lines called `name` (case-insensitive), or None."""
    name = name.lower()
    vals = [v.strip(" \t") for (k, v) in lines if k.lower() == name]
    if not vals:
        return None
    return ",".join(vals)


def expected(sock_ip, conn_proto, lines, trusted):
    """-> (allowed remote_ip set, allowed protocol set, tags set)."""
    tags = set()
    trusted = set(trusted or ())
    xff = combined(lines, "X-Forwarded-For")
    xri = combined(lines, "X-Real-Ip")
    # ---- candidate from X-Forwarded-For
    cand = None
    alt = None  # the other defensible reading when the text is ambiguous
    if xff is not None:
        tags.add("xff")
        entries = [e.strip() for e in xff.split(",")]
        if len(entries) > 1:
            tags.add("xff_list")
        untrusted = [e for e in reversed(entries) if e not in trusted]
        if untrusted:
            cand = untrusted[0]
            if entries[-1] in trusted:
                tags.add("xff_trusted_skipped")
        else:
            tags.add("xff_all_trusted")
            alt = entries[0]
    if xri is not None:
        tags.add("xri")
        if valid_ip(xri):
            ips = {xri}
            if xff is not None:
                tags.add("xri_over_xff")
        else:
            tags.add("xri_invalid")
            ips = {sock_ip}
            if cand is not None and valid_ip(cand):
                tags.add("ambiguous_xri_invalid_xff_valid")
                ips.add(cand)
    elif cand is not None:
        if valid_ip(cand):
            ips = {cand}
        else:
            tags.add("xff_invalid")
            ips = {sock_ip}
    elif alt is not None:
        ips = {sock_ip}
        if valid_ip(alt):
            ips.add(alt)
    else:
        ips = {sock_ip}
    for ip in ips:
        if ip != sock_ip:
            tags.add("ip_from_header")
            if ":" in ip:
                tags.add("ipv6_from_header")
            if not strict_ip(ip):
                tags.add("lenient_numeric_form")
    # ---- protocol
    xs = combined(lines, "X-Scheme")
    xfp = combined(lines, "X-Forwarded-Proto")

    def last(v):
        return v.split(",")[-1].strip() if v else v

    if xs is not None:
        tags.add("x_scheme")
        if "," in xs:
            tags.add("proto_list")
        c = last(xs)
        if c in _VALID:
            protos = {c}
            if xfp is not None:
                tags.add("x_scheme_over_xfp")
        else:
            tags.add("proto_invalid")
            protos = {conn_proto}
            if xfp is not None and last(xfp) in _VALID:
                tags.add("ambiguous_x_scheme_invalid_xfp_valid")
                protos.add(last(xfp))
    elif xfp is not None:
        tags.add("xfp")
        if "," in xfp:
            tags.add("proto_list")
        c = last(xfp)
        if c in _VALID:
            protos = {c}
        else:
            tags.add("proto_invalid")
            protos = {conn_proto}
    else:
        protos = {conn_proto}
    if protos != {conn_proto}:
        tags.add("proto_from_header")
    return ips, protos, tags
