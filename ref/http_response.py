"""Strict reference reader for HTTP/1.x *responses* (client side), RFC 9112 / 9110.

Pure function of (bytes delivered, how the connection ended, request method,
limits).  It is the oracle for C08: what a strict HTTP/1.1 reader extracts
from a response stream, or why it refuses it.

Leniencies the reference shares with Tornado (documented in Tornado, allowed
by RFC 9112 2.2 / 5.2): bare LF as a line terminator in the start line and the
field section, obs-fold (replaced by one SP), empty line(s) before the status
line.  Each use is reported in ``Result.lenient``.

``Result.either`` lists features for which a conforming recipient may also
refuse the message (Tornado is knowingly stricter than the RFC there: chunk
extensions, trailers, 1xx/204 carrying body headers, ...).  For such a message
the oracle accepts "rejected" as well as "accepted with exactly this framing".

Body framing follows RFC 9112 6.3 *in order*: a response to HEAD and any
1xx/204/304 ends at the blank line whatever Content-Length / Transfer-Encoding
say (they are not even validated); Transfer-Encoding together with
Content-Length is an error; a final coding other than exactly one ``chunked``
is refused (the reference, like Tornado, implements no other transfer coding);
invalid Content-Length is an error; otherwise the body runs to the end of the
connection and is complete only if the connection ended without an error.
"""

import zlib

INTERIM_CODES = (100, 102, 103)

_TCHAR = frozenset(b"!#$%&'*+-.^_`|~0123456789abcdefghijklmnopqrstuvwxyzABCDEFGHIJKLMNOPQRSTUVWXYZ")
_DIGITS = frozenset(b"0123456789")
_HEX = frozenset(b"0123456789abcdefABCDEF")
_OWS = b" \t"


def _field_bytes_ok(v):
    """field-value bytes: VCHAR / obs-text / SP / HTAB only."""
    for c in v:
        if c < 0x20:
            if c != 0x09:
                return False
        elif c == 0x7F:
            return False
    return True


class Result:
    __slots__ = ("kind", "why", "code", "reason", "version", "headers", "body", "raw_body",
                 "framing", "either", "lenient", "interim", "end", "partial", "coding",
                 "head_len", "final_start")

    def __init__(self):
        self.kind = None  # "ok" | "reject" | "incomplete"
        self.why = None  # short class name of the reason (stable: used in violation keys)
        self.code = None
        self.reason = None
        self.version = None
        self.headers = []  # [(name, value)] of the final response, wire order, latin-1 str
        self.body = b""  # after content decoding when requested
        self.raw_body = b""  # after transfer decoding only
        self.framing = None  # "none" | "cl" | "chunked" | "close"
        self.either = set()
        self.lenient = set()
        self.interim = []  # [(code, reason, headers)]
        self.end = 0  # offset just after the final message
        self.partial = b""  # transfer-decoded body bytes seen before a failure
        self.coding = None  # "gzip" when content decoding was applied
        self.head_len = 0
        self.final_start = 0  # offset of the message after the last interim response

    def fail(self, kind, why):
        self.kind = kind
        self.why = why
        return self

    def multimap(self):
        return headers_multimap(self.headers)

    def __repr__(self):
        if self.kind == "ok":
            return (f"<ok {self.code} {self.reason!r} {self.framing} body={len(self.body)} "
                    f"either={sorted(self.either)} lenient={sorted(self.lenient)}>")
        return f"<{self.kind} {self.why} either={sorted(self.either)}>"


def headers_multimap(pairs):
    """{lower-case name: [values in wire order]}"""
    out = {}
    for k, v in pairs:
        out.setdefault(k.lower(), []).append(v)
    return out


def _split_lines(data, pos, res, max_header_size):
    """Read one header section starting at ``pos``.

    Returns (start_line, [header lines], end_offset) or a string naming the
    failure ("incomplete" or a reject reason).  Lines are returned without
    their terminator; ``res.lenient`` / ``res.either`` are updated.
    """
    n = len(data)
    start = pos
    blanks = 0
    lines = []
    while True:
        lf = data.find(b"\n", pos)
        if lf < 0:
            if n - start > max_header_size:
                return "header_too_large"
            return "incomplete"
        line = data[pos:lf]
        crlf = line.endswith(b"\r")
        if crlf:
            line = line[:-1]
        nxt = lf + 1
        if not lines:
            if not line:
                blanks += 1
                if not crlf:
                    res.lenient.add("bare_lf")
                pos = nxt
                continue
        elif not line:
            if not crlf:
                res.lenient.add("bare_lf")
            end = nxt
            break
        if not crlf:
            res.lenient.add("bare_lf")
        lines.append(line)
        pos = nxt
    if blanks:
        res.lenient.add("leading_blank")
        if blanks >= 2:
            res.either.add("multi_leading_blank")
    if end - start > max_header_size:
        return "header_too_large"
    return lines[0], lines[1:], end


def _parse_status_line(line):
    """status-line = HTTP-version SP status-code SP [ reason-phrase ]"""
    if b"\r" in line:
        return "bare_cr_before_status_line" if line[:1] == b"\r" else "bare_cr_status_line"
    if len(line) < 13 or line[:5] != b"HTTP/" or line[6:7] != b"." or line[8:9] != b" ":
        return "status_line"
    if line[5] not in _DIGITS or line[7] not in _DIGITS:
        return "status_line"
    code = line[9:12]
    if any(c not in _DIGITS for c in code) or line[12:13] != b" ":
        return "status_line"
    reason = line[13:]
    for c in reason:
        if (c < 0x20 and c != 0x09) or c == 0x7F:
            return "status_line"
    if line[5:6] != b"1":
        return "http_version"
    return line[:8].decode("latin1"), int(code), reason.decode("latin1")


def _parse_fields(lines, res, where="header"):
    """field-line = field-name ":" OWS field-value OWS, plus obs-fold."""
    out = []
    for line in lines:
        if b"\r" in line:
            return "bare_cr_" + where
        if line[:1] in (b" ", b"\t"):
            if not out:
                return "fold_before_first_" + where
            cont = line.strip(_OWS)
            if not _field_bytes_ok(cont):
                return "bad_field_value"
            res.lenient.add("obs_fold")
            k, v = out[-1]
            out[-1] = (k, v + " " + cont.decode("latin1"))
            continue
        colon = line.find(b":")
        if colon < 0:
            return "no_colon"
        name = line[:colon]
        if not name or any(c not in _TCHAR for c in name):
            return "bad_field_name"
        value = line[colon + 1:].strip(_OWS)
        if not _field_bytes_ok(value):
            return "bad_field_value"
        out.append((name.decode("latin1"), value.decode("latin1")))
    return out


def _content_length(values, res):
    """Combined Content-Length field value -> int, or a reject reason."""
    combined = ",".join(values)
    pieces = combined.split(",")
    nums = []
    for i, p in enumerate(pieces):
        q = p.strip(" \t")
        if not q or any(ord(c) not in _DIGITS for c in q):
            return "bad_content_length"
        if i < len(pieces) - 1 and p.rstrip(" \t") != p:
            res.either.add("cl_ows_before_comma")
        nums.append(q)
    if any(int(x) != int(nums[0]) for x in nums):
        return "unequal_content_lengths"
    if any(x != nums[0] for x in nums):
        res.either.add("cl_list_spelling_differs")
    return int(nums[0])


def _transfer_encoding(values, res):
    """True if the (only) transfer coding is chunked; else a reject reason."""
    combined = ",".join(values)
    elems = [e.strip(" \t") for e in combined.split(",")]
    if any(not e for e in elems):
        res.either.add("te_empty_list_element")
        elems = [e for e in elems if e]
    if [e.lower() for e in elems] == ["chunked"]:
        if combined.strip(" \t").lower() != "chunked":
            res.either.add("te_empty_list_element")
        return True
    return "unsupported_transfer_encoding"


def _read_chunked(data, pos, res, max_body_size):
    """Returns (body, end) or a failure string; res.partial holds the prefix."""
    n = len(data)
    body = bytearray()
    total = 0
    while True:
        lf = data.find(b"\n", pos)
        if lf < 0:
            res.partial = bytes(body)
            # a size line can never legitimately be this long
            return "incomplete_chunked"
        line = data[pos:lf]
        if line.endswith(b"\r"):
            line = line[:-1]
        else:
            res.either.add("chunk_bare_lf")
        if lf + 1 - pos > 64:
            res.either.add("chunk_line_over_64")
        semi = line.find(b";")
        if semi >= 0:
            ext = line[semi:]
            size_s = line[:semi]
            # BWS is allowed before ";" only
            size_s = size_s.rstrip(_OWS)
            if b"\r" in ext or not _field_bytes_ok(ext):
                res.partial = bytes(body)
                return "bad_chunk_ext"
            res.either.add("chunk_ext")
        else:
            size_s = line
        if not size_s or any(c not in _HEX for c in size_s):
            res.partial = bytes(body)
            return "bad_chunk_size"
        size = int(size_s, 16)
        pos = lf + 1
        if size == 0:
            # trailer section
            tlines = []
            while True:
                lf = data.find(b"\n", pos)
                if lf < 0:
                    res.partial = bytes(body)
                    return "incomplete_chunked"
                t = data[pos:lf]
                if t.endswith(b"\r"):
                    t = t[:-1]
                else:
                    res.either.add("chunk_bare_lf")
                pos = lf + 1
                if not t:
                    break
                tlines.append(t)
            if tlines:
                r = _parse_fields(tlines, res, "trailer")
                if isinstance(r, str):
                    res.partial = bytes(body)
                    return "bad_trailer"
                res.either.add("trailers")
            return bytes(body), pos
        total += size
        if max_body_size is not None and total > max_body_size:
            res.partial = bytes(body)
            return "body_too_large"
        if pos + size > n:
            body += data[pos:n]
            res.partial = bytes(body)
            return "incomplete_chunked"
        body += data[pos:pos + size]
        pos += size
        term = data[pos:pos + 2]
        if len(term) < 2 and b"\r\n".startswith(term):
            res.partial = bytes(body)
            return "incomplete_chunked"
        if term != b"\r\n":
            res.partial = bytes(body)
            return "bad_chunk_terminator"
        pos += 2


def gunzip_strict(raw):
    """Decode a gzip content coding strictly.

    Returns (data, None, tags) or (partial, reason, tags).  All members must be
    complete (header, deflate stream, CRC32, ISIZE); anything after the last
    member is an error.
    """
    out = bytearray()
    tags = set()
    members = 0
    while True:
        d = zlib.decompressobj(16 + zlib.MAX_WBITS)
        try:
            out += d.decompress(raw)
            out += d.flush()
        except zlib.error:
            if members:
                return bytes(out), "gzip_trailing_garbage", tags
            return bytes(out), "gzip_corrupt", tags
        if not d.eof:
            if members:
                return bytes(out), "gzip_trailing_garbage", tags
            # which part is missing?  the 8-byte trailer or the deflate data
            return bytes(out), _gzip_cut_class(raw), tags
        members += 1
        if members > 1:
            tags.add("gzip_multi_member")
        raw = d.unused_data
        if not raw:
            break
    return bytes(out), None, tags


def _gzip_cut_class(raw):
    """Was the (single-member) stream cut inside its 8-byte trailer or before it?"""
    n = len(raw)
    if n < 10 or raw[:2] != b"\x1f\x8b":
        return "gzip_truncated_data"
    flg = raw[3]
    pos = 10
    if flg & 4:
        if pos + 2 > n:
            return "gzip_truncated_data"
        pos += 2 + raw[pos] + (raw[pos + 1] << 8)
    for bit in (8, 16):
        if flg & bit:
            z = raw.find(b"\x00", pos)
            if z < 0:
                return "gzip_truncated_data"
            pos = z + 1
    if flg & 2:
        pos += 2
    if pos > n:
        return "gzip_truncated_data"
    d = zlib.decompressobj(-zlib.MAX_WBITS)
    try:
        d.decompress(raw[pos:])
    except zlib.error:
        return "gzip_corrupt"
    return "gzip_truncated_trailer" if d.eof else "gzip_truncated_data"


def read_response(data, end="fin", method="GET", max_header_size=65536, max_body_size=None,
                  decompress=False):
    """Parse the response stream ``data``.

    ``end``: how the connection ended after ``data``: "fin" (orderly close),
    "rst" (connection error) or None (still open: only complete messages
    count).  ``max_body_size`` None = unlimited; 0 = no body byte at all is acceptable
    (empty bodies and bodiless responses are still fine).
    """
    data = bytes(data)
    res = Result()
    pos = 0
    while True:
        res.final_start = pos
        r = _split_lines(data, pos, res, max_header_size)
        if isinstance(r, str):
            if r == "incomplete":
                return res.fail("incomplete", "incomplete_headers")
            return res.fail("reject", r)
        start_line, hlines, hend = r
        sl = _parse_status_line(start_line)
        if isinstance(sl, str):
            return res.fail("reject", sl)
        version, code, reason = sl
        fields = _parse_fields(hlines, res)
        if isinstance(fields, str):
            return res.fail("reject", fields)
        mm = headers_multimap(fields)
        if 100 <= code < 200:
            if code == 101:
                return res.fail("reject", "protocol_switch")
            if "content-length" in mm or "transfer-encoding" in mm:
                res.either.add("interim_body_headers")
            res.interim.append((code, reason, fields))
            pos = hend
            continue
        break
    res.version, res.code, res.reason, res.headers = version, code, reason, fields
    res.head_len = hend - pos
    pos = hend
    te = mm.get("transfer-encoding")
    cl = mm.get("content-length")
    # RFC 9112 6.3, in order
    if method == "HEAD" or code in (204, 304):
        res.framing = "none"
        if code == 204 and method != "HEAD" and (te is not None or cl is not None):
            res.either.add("204_body_headers")
        raw = b""
        end_off = pos
    elif te is not None:
        if cl is not None:
            return res.fail("reject", "cl_and_te")
        t = _transfer_encoding(te, res)
        if t is not True:
            return res.fail("reject", t)
        res.framing = "chunked"
        r = _read_chunked(data, pos, res, max_body_size)
        if isinstance(r, str):
            return res.fail("incomplete" if r.startswith("incomplete") else "reject", r)
        raw, end_off = r
    elif cl is not None:
        n = _content_length(cl, res)
        if isinstance(n, str):
            return res.fail("reject", n)
        res.framing = "cl"
        if max_body_size is not None and n > max_body_size:
            return res.fail("reject", "body_too_large")
        if pos + n > len(data):
            res.partial = data[pos:]
            return res.fail("incomplete", "incomplete_cl")
        raw = data[pos:pos + n]
        end_off = pos + n
    else:
        res.framing = "close"
        raw = data[pos:]
        end_off = len(data)
        res.partial = raw
        if end != "fin":
            return res.fail("incomplete", "incomplete_close_delimited_" + (end or "open"))
    res.raw_body = raw
    res.partial = raw
    res.end = end_off
    body = raw
    ce = mm.get("content-encoding")
    if decompress and ce is not None and ",".join(ce).lower() == "gzip":
        res.coding = "gzip"
        if raw:
            body, why, tags = gunzip_strict(raw)
            res.either |= tags
            if why is not None:
                return res.fail("reject", why)
            if max_body_size is not None and len(body) > max_body_size:
                return res.fail("reject", "decoded_body_too_large")
        elif res.framing != "none":
            res.either.add("gzip_empty_body")
    if res.framing == "close" and max_body_size is not None:
        # no framing header to check up front: the limit applies to what is delivered
        if len(body) > max_body_size:
            return res.fail("reject", "body_too_large")
        if len(raw) > max_body_size:
            # only the encoded form is over the limit: a recipient may refuse it too
            res.either.add("encoded_body_over_limit")
    res.body = body
    res.kind = "ok"
    return res


def client_view_headers(res, decompress):
    """Header multimap as Tornado documents it: with decompress_response the
    consumed ``Content-Encoding: gzip`` is renamed to X-Consumed-Content-Encoding."""
    mm = res.multimap()
    if decompress and "content-encoding" in mm and ",".join(mm["content-encoding"]).lower() == "gzip":
        v = ",".join(mm.pop("content-encoding"))
        mm.setdefault("x-consumed-content-encoding", []).append(v)
    return mm
