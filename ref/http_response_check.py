"""Strict client-side HTTP/1.1 response reader (reference model for C02/C03).

Input: the bytes a client received on one connection (fed incrementally or at
once), the position of EOF (``close()``), and the method of each request the
client sent (needed because the framing of a response depends on the request
method: RFC 9112 section 6.3).

Output: the list of responses the byte stream *unambiguously* contains, each
with its start line, header field lines in order, the way its body is
delimited and the body with the transfer coding removed, plus every
deviation from the grammar that a strict client must treat as an error.

Strictness (nothing a conforming server needs is rejected, nothing else is
accepted):

* status-line = ``HTTP/1.x SP 3DIGIT SP [reason-phrase] CRLF``; only CRLF ends a
  line (a bare LF or a CR inside a line is an error);
* field-line = ``token ":" OWS field-value OWS``; no obs-fold, no whitespace
  before the colon, no control characters in the value;
* body length, in the order of RFC 9112 6.3: response to HEAD, 1xx, 204, 304
  => no body, whatever the header fields say; ``Transfer-Encoding`` whose final
  coding is ``chunked`` => chunked; any other Transfer-Encoding => read until
  close; Transfer-Encoding together with Content-Length => error (a sender
  MUST NOT do that; a client must treat it as an attack); several
  Content-Length values that differ, or a value that is not 1*DIGIT => error;
  Content-Length => that many bytes; otherwise => read until close;
* chunk = ``1*HEXDIG [chunk-ext] CRLF data CRLF``; last-chunk ``1*"0" CRLF``;
  trailer section = field lines up to an empty line.  Chunk extensions are
  accepted by the grammar but reported in ``Response.notes`` (Tornado never
  produces them);
* 1xx responses are interim: they do not use up a request.

The reader is incremental and O(bytes): ``feed()`` may be called with single
bytes.  It never guesses: after the first error it stops (``error`` is set,
``error_at`` is the offset of the offending element) because everything
after a framing error is ambiguous.
"""

import re

_TOKEN = re.compile(rb"[!#$%&'*+\-.^_`|~0-9A-Za-z]+\Z")
_STATUS = re.compile(rb"HTTP/(1\.[01]) ([0-9]{3}) ([\t \x21-\x7e\x80-\xff]*)\Z")
_STATUS_NOSP = re.compile(rb"HTTP/(1\.[01]) ([0-9]{3})\Z")
_VALUE_BAD = re.compile(rb"[\x00-\x08\x0a-\x1f\x7f]")
_DIGITS = re.compile(rb"[0-9]+\Z")
_CHUNK = re.compile(rb"([0-9A-Fa-f]+)((?:[ \t]*;.*)?)\Z", re.S)

MAX_LINE = 65536

NOBODY = "nobody"          # HEAD / 1xx / 204 / 304
CL = "content-length"
CHUNKED = "chunked"
EOF = "eof"                # read-until-close


class Response:
    __slots__ = ("index", "request_index", "method", "version", "code", "reason",
                 "headers", "delim", "why_nobody", "content_length", "body", "chunk_sizes",
                 "trailers", "complete", "start", "header_end", "end", "notes",
                 "interim")

    def __init__(self, index, request_index, method, start):
        self.index = index
        self.request_index = request_index
        self.method = method
        self.version = None
        self.code = None
        self.reason = None
        self.headers = []        # [(name_bytes, value_bytes)] in wire order, value stripped
        self.delim = None
        self.why_nobody = None   # "HEAD" | "1xx" | "204" | "304"
        self.content_length = None
        self.body = bytearray()  # transfer coding removed
        self.chunk_sizes = []
        self.trailers = []
        self.complete = False
        self.start = start
        self.header_end = None
        self.end = None
        self.notes = []
        self.interim = False

    # -- helpers for the oracles
    def get_all(self, name):
        n = name.lower().encode("latin1") if isinstance(name, str) else name.lower()
        return [v for k, v in self.headers if k.lower() == n]

    def get(self, name, default=None):
        vs = self.get_all(name)
        if not vs:
            return default
        return b",".join(vs)

    def tokens(self, name):
        """Comma-separated list members of a field, lower-cased, OWS-trimmed."""
        out = []
        for v in self.get_all(name):
            for t in v.split(b","):
                t = t.strip(b" \t").lower()
                if t:
                    out.append(t)
        return out

    def multimap(self):
        """name (as on the wire, str) -> [values (str, latin-1)] in wire order."""
        d = {}
        for k, v in self.headers:
            d.setdefault(k.decode("latin1"), []).append(v.decode("latin1"))
        return d

    def summary(self):
        return (self.code, self.delim, len(self.body), self.complete)


class ResponseReader:
    """Incremental strict reader.  ``methods``: request methods in send order;
    more can be appended later with ``expect(method)``."""

    def __init__(self, methods=()):
        self.methods = list(methods)
        self.buf = bytearray()
        self.pos = 0            # parse position in buf
        self.scan = 0           # where the search for the next CRLF resumes
        self.responses = []     # all responses incl. interim ones, in order
        self.cur = None
        self.state = "start"    # start | headers | cl | chunk_size | chunk_data | chunk_crlf |
        #                         trailers | eof | error | closed
        self.need = 0
        self.error = None       # (kind, detail)
        self.error_at = None
        self.eof = False
        self.n_final = 0        # completed non-interim responses
        self.extra = None       # offset of bytes for which no request is outstanding

    # ------------------------------------------------------------------
    def expect(self, method):
        self.methods.append(method)
        if self.state == "start" and self.extra is not None:
            # bytes that had no request to belong to: that was already an error
            pass

    def feed(self, data):
        if not data:
            return
        if self.eof:
            raise ValueError("feed after close")
        self.buf += data
        self._run()

    def close(self):
        """EOF (FIN or RST) seen after everything fed so far."""
        if self.eof:
            return
        self.eof = True
        if self.state == "eof" and self.cur is not None:
            r = self.cur
            r.complete = True
            r.end = len(self.buf)
            self._done(r)
            self.state = "closed"
        elif self.state == "start" and self.pos == len(self.buf):
            self.state = "closed"
        # any other state: the current element is incomplete; ``incomplete()`` tells

    # ------------------------------------------------------------------
    def finals(self):
        return [r for r in self.responses if not r.interim]

    def complete_finals(self):
        return [r for r in self.responses if not r.interim and r.complete]

    def in_progress(self):
        """The response being read (headers or body not complete), or None."""
        return self.cur

    def partial_bytes(self):
        """Bytes received after the last complete response (belonging to an
        incomplete one, or unparsed)."""
        last = 0
        for r in self.responses:
            if r.complete:
                last = r.end
        return len(self.buf) - last

    def incomplete(self):
        """True if the stream ends (so far) inside a response."""
        if self.state in ("error",):
            return False
        if self.state in ("start", "closed"):
            return self.pos < len(self.buf) and self.state == "start"
        return True

    # ------------------------------------------------------------------
    def _fail(self, kind, detail, at=None):
        self.error = (kind, detail)
        self.error_at = self.pos if at is None else at
        self.state = "error"

    def _line(self):
        """Next CRLF-terminated line (without CRLF) or None if incomplete."""
        buf = self.buf
        i = buf.find(b"\r\n", max(self.scan, self.pos))
        if i < 0:
            # remember where to resume: the last byte may be a lone CR
            self.scan = max(self.pos, len(buf) - 1)
            if len(buf) - self.pos > MAX_LINE:
                self._fail("line_too_long", "")
            return None
        line = bytes(buf[self.pos:i])
        self._line_at = self.pos
        self.pos = i + 2
        self.scan = self.pos
        return line

    def _done(self, r):
        self.cur = None
        if not r.interim:
            self.n_final += 1

    def _run(self):
        buf = self.buf
        while True:
            st = self.state
            if st == "start":
                if self.pos >= len(buf):
                    return
                req_idx = self.n_final
                if req_idx >= len(self.methods):
                    # a response nobody asked for
                    if self.extra is None:
                        self.extra = self.pos
                    self._fail("unsolicited_bytes", bytes(buf[self.pos:self.pos + 24]))
                    return
                line = self._line()
                if line is None:
                    if self.state != "error":
                        # early check so that garbage is reported as such even when no
                        # CRLF ever arrives
                        head = bytes(buf[self.pos:self.pos + 5])
                        if b"HTTP/"[:len(head)] != head:
                            self._fail("status_line", bytes(buf[self.pos:self.pos + 24]))
                    return
                m = _STATUS.match(line)
                if m is None:
                    if _STATUS_NOSP.match(line):
                        self._fail("status_line_no_sp_after_code", line[:40], self._line_at)
                    else:
                        self._fail("status_line", line[:40], self._line_at)
                    return
                r = Response(len(self.responses), req_idx, self.methods[req_idx], self._line_at)
                r.version = m.group(1).decode()
                r.code = int(m.group(2))
                r.reason = m.group(3)
                if b"\r" in r.reason or b"\n" in r.reason:
                    self._fail("status_line", line[:40], self._line_at)
                    return
                self.responses.append(r)
                self.cur = r
                self.state = "headers"
            elif st == "headers":
                line = self._line()
                if line is None:
                    return
                r = self.cur
                if line == b"":
                    r.header_end = self.pos
                    self._decide_framing(r)
                    if self.state == "error":
                        return
                    continue
                if not self._field_line(line, r.headers):
                    return
            elif st == "cl":
                r = self.cur
                avail = len(buf) - self.pos
                if avail <= 0 and self.need > 0:
                    return
                take = min(avail, self.need)
                r.body += buf[self.pos:self.pos + take]
                self.pos += take
                self.scan = self.pos
                self.need -= take
                if self.need == 0:
                    r.complete = True
                    r.end = self.pos
                    self._done(r)
                    self.state = "start"
                else:
                    return
            elif st == "chunk_size":
                line = self._line()
                if line is None:
                    return
                m = _CHUNK.match(line)
                if m is None:
                    self._fail("chunk_size", line[:40], self._line_at)
                    return
                if m.group(2):
                    self.cur.notes.append("chunk_ext")
                n = int(m.group(1), 16)
                if n == 0:
                    self.state = "trailers"
                else:
                    self.cur.chunk_sizes.append(n)
                    self.need = n
                    self.state = "chunk_data"
            elif st == "chunk_data":
                r = self.cur
                avail = len(buf) - self.pos
                if avail <= 0:
                    return
                take = min(avail, self.need)
                r.body += buf[self.pos:self.pos + take]
                self.pos += take
                self.scan = self.pos
                self.need -= take
                if self.need == 0:
                    self.state = "chunk_crlf"
                else:
                    return
            elif st == "chunk_crlf":
                if len(buf) - self.pos < 2:
                    if len(buf) - self.pos == 1 and buf[self.pos] != 0x0D:
                        self._fail("chunk_data_terminator", bytes(buf[self.pos:self.pos + 2]))
                    return
                if buf[self.pos:self.pos + 2] != b"\r\n":
                    self._fail("chunk_data_terminator", bytes(buf[self.pos:self.pos + 8]))
                    return
                self.pos += 2
                self.scan = self.pos
                self.state = "chunk_size"
            elif st == "trailers":
                line = self._line()
                if line is None:
                    return
                r = self.cur
                if line == b"":
                    r.complete = True
                    r.end = self.pos
                    self._done(r)
                    self.state = "start"
                    continue
                if not self._field_line(line, r.trailers):
                    return
            elif st == "eof":
                r = self.cur
                r.body += buf[self.pos:]
                self.pos = len(buf)
                self.scan = self.pos
                return
            else:  # error / closed
                if st == "closed" and self.pos < len(buf):
                    self._fail("bytes_after_close", b"")
                return

    def _field_line(self, line, into):
        i = line.find(b":")
        if i <= 0:
            self._fail("field_line_no_colon" if i < 0 else "field_line_empty_name",
                       line[:40], self._line_at)
            return False
        name = line[:i]
        if _TOKEN.match(name) is None:
            self._fail("field_name", line[:40], self._line_at)
            return False
        value = line[i + 1:].strip(b" \t")
        if _VALUE_BAD.search(value) or b"\r" in value:
            self._fail("field_value", line[:40], self._line_at)
            return False
        into.append((name, value))
        return True

    def _decide_framing(self, r):
        code = r.code
        te = r.get_all("transfer-encoding")
        cls = r.get_all("content-length")
        # header sanity that holds whatever the body rule is
        clv = None
        if cls:
            vals = []
            for v in cls:
                for piece in v.split(b","):
                    vals.append(piece.strip(b" \t"))
            if any(_DIGITS.match(v) is None for v in vals):
                self._fail("content_length_value", cls[0][:40], r.start)
                return
            if len(set(int(v) for v in vals)) != 1:
                self._fail("content_length_conflict", b",".join(cls)[:40], r.start)
                return
            if len(vals) > 1:
                r.notes.append("content_length_repeated")
            clv = int(vals[0])
            r.content_length = clv
        if te and cls:
            self._fail("content_length_with_transfer_encoding", b"", r.start)
            return
        if 100 <= code < 200:
            r.interim = code != 101
            r.delim = NOBODY
            r.why_nobody = "1xx"
        elif r.method == "HEAD":
            r.delim = NOBODY
            r.why_nobody = "HEAD"
        elif code in (204, 304):
            r.delim = NOBODY
            r.why_nobody = str(code)
        elif te:
            codings = r.tokens("transfer-encoding")
            if codings and codings[-1] == b"chunked":
                if codings.count(b"chunked") != 1:
                    self._fail("transfer_encoding_chunked_twice", b"", r.start)
                    return
                r.delim = CHUNKED
            else:
                r.delim = EOF
        elif clv is not None:
            r.delim = CL
        else:
            r.delim = EOF
        if r.delim == NOBODY:
            r.complete = True
            r.end = self.pos
            self._done(r)
            self.state = "start"
        elif r.delim == CL:
            self.need = clv
            if clv == 0:
                r.complete = True
                r.end = self.pos
                self._done(r)
                self.state = "start"
            else:
                self.state = "cl"
        elif r.delim == CHUNKED:
            self.state = "chunk_size"
        else:
            self.state = "eof"


def read_all(data, eof, methods):
    """One-shot: returns the ResponseReader after feeding ``data`` (+ EOF)."""
    rr = ResponseReader(methods)
    rr.feed(bytes(data))
    if eof:
        rr.close()
    return rr


def decode_content(body, encoding):
    """Remove a Content-Encoding.  Returns (data, complete_flag).  Only gzip
    (what Tornado produces) and identity are known."""
    import zlib
    enc = (encoding or b"").strip().lower()
    if enc in (b"", b"identity"):
        return bytes(body), True
    if enc != b"gzip":
        raise ValueError("unknown content-encoding %r" % enc)
    d = zlib.decompressobj(16 + zlib.MAX_WBITS)
    try:
        out = d.decompress(bytes(body))
    except zlib.error:
        return None, False
    return out, d.eof and not d.unused_data
