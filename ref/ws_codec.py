"""Independent RFC 6455 frame codec with permessage-deflate (RFC 7692).

Written from the RFCs, not from tornado.websocket: it shares no code with the
implementation under test (masking is done with big-integer XOR, the frame
parser is a small incremental state machine, deflate goes through zlib with
our own handling of context takeover, window bits and BFINAL blocks).

Used by the WebSocket properties (C14-C16) in three roles:
  * encoder for the raw frame peer (valid traffic and deliberate violations),
  * decoder / strict receiver for everything Tornado puts on the wire,
  * handshake helper (Sec-WebSocket-Accept, extension offers / responses).
"""

import base64
import hashlib
import zlib

GUID = b"258EAFA5-E914-47DA-95CA-C5AB0DC85B11"

OP_CONT, OP_TEXT, OP_BIN = 0x0, 0x1, 0x2
OP_CLOSE, OP_PING, OP_PONG = 0x8, 0x9, 0xA
DATA_OPS = (OP_TEXT, OP_BIN)
CONTROL_OPS = (OP_CLOSE, OP_PING, OP_PONG)

RSV1, RSV2, RSV3 = 4, 2, 1  # values of the 3-bit rsv field used in this module

DEFLATE_TAIL = b"\x00\x00\xff\xff"


# --------------------------------------------------------------------------
# masking


def apply_mask(mask, data):
    """RFC 6455 5.3: octet i of the result = data[i] XOR mask[i mod 4]."""
    n = len(data)
    if n == 0:
        return b""
    if len(mask) != 4:
        raise ValueError("mask must be 4 bytes")
    m = (bytes(mask) * ((n + 3) // 4))[:n]
    return (int.from_bytes(data, "big") ^ int.from_bytes(m, "big")).to_bytes(n, "big")


# --------------------------------------------------------------------------
# frames


def encode_frame(opcode, payload=b"", fin=True, rsv=0, mask=None, len_form=None,
                 declared_len=None):
    """One frame.  ``rsv`` is the 3-bit field (RSV1=4, RSV2=2, RSV3=1);
    ``mask`` = 4 bytes (client->server frames) or None; ``len_form`` forces
    the 7 / 16 / 64-bit length encoding (default: the minimal one);
    ``declared_len`` (violations only) writes that value into the 64-bit
    length field whatever the payload's real length is, e.g. with the
    reserved most significant bit set (RFC 6455 5.2: it MUST be 0)."""
    if declared_len is not None:
        b0 = (0x80 if fin else 0) | ((rsv & 7) << 4) | (opcode & 0x0F)
        head = bytes((b0, (0x80 if mask is not None else 0) | 127)) \
            + (declared_len & 0xFFFFFFFFFFFFFFFF).to_bytes(8, "big")
        if mask is not None:
            return head + bytes(mask) + apply_mask(mask, payload)
        return head + bytes(payload)
    n = len(payload)
    b0 = (0x80 if fin else 0) | ((rsv & 7) << 4) | (opcode & 0x0F)
    mb = 0x80 if mask is not None else 0
    if len_form is None:
        len_form = 7 if n < 126 else (16 if n < 65536 else 64)
    if len_form == 7:
        if n > 125:
            raise ValueError("length does not fit the 7-bit form")
        head = bytes((b0, mb | n))
    elif len_form == 16:
        if n > 0xFFFF:
            raise ValueError("length does not fit the 16-bit form")
        head = bytes((b0, mb | 126)) + n.to_bytes(2, "big")
    else:
        head = bytes((b0, mb | 127)) + n.to_bytes(8, "big")
    if mask is not None:
        return head + bytes(mask) + apply_mask(mask, payload)
    return head + bytes(payload)


def header_len(n, masked):
    return 2 + (0 if n < 126 else 2 if n < 65536 else 8) + (4 if masked else 0)


class Frame:
    __slots__ = ("fin", "rsv", "opcode", "masked", "mask", "payload", "length",
                 "hlen", "start", "end", "len_form")

    def __init__(self):
        self.fin = False
        self.rsv = 0
        self.opcode = 0
        self.masked = False
        self.mask = None
        self.payload = b""  # unmasked
        self.length = 0
        self.hlen = 0
        self.start = 0  # byte offset of the frame in the stream
        self.end = 0
        self.len_form = 7

    @property
    def rsv1(self):
        return bool(self.rsv & RSV1)

    def brief(self):
        return (self.opcode, int(self.fin), self.rsv, int(self.masked), self.length)


class FrameParser:
    """Incremental structural parser: cuts a byte stream into frames.  It
    validates nothing beyond the framing itself; semantics live in Receiver."""

    def __init__(self):
        self.buf = bytearray()
        self.consumed = 0  # stream offset of buf[0]
        self.frames = []

    def feed(self, data):
        """Returns the list of frames completed by ``data``."""
        if data:
            self.buf += data
        out = []
        buf = self.buf
        while True:
            avail = len(buf)
            if avail < 2:
                break
            b0, b1 = buf[0], buf[1]
            n7 = b1 & 0x7F
            masked = bool(b1 & 0x80)
            pos = 2
            if n7 == 126:
                if avail < 4:
                    break
                n = int.from_bytes(buf[2:4], "big")
                pos = 4
                form = 16
            elif n7 == 127:
                if avail < 10:
                    break
                n = int.from_bytes(buf[2:10], "big")
                pos = 10
                form = 64
            else:
                n = n7
                form = 7
            if masked:
                if avail < pos + 4:
                    break
                mask = bytes(buf[pos:pos + 4])
                pos += 4
            else:
                mask = None
            if avail < pos + n:
                break
            f = Frame()
            f.fin = bool(b0 & 0x80)
            f.rsv = (b0 >> 4) & 7
            f.opcode = b0 & 0x0F
            f.masked = masked
            f.mask = mask
            f.length = n
            f.hlen = pos
            f.len_form = form
            raw = bytes(buf[pos:pos + n])
            f.payload = apply_mask(mask, raw) if masked else raw
            f.start = self.consumed
            f.end = self.consumed + pos + n
            del buf[:pos + n]
            self.consumed = f.end
            self.frames.append(f)
            out.append(f)
        return out

    def pending(self):
        """Bytes of an incomplete frame at the end of the stream."""
        return len(self.buf)


# --------------------------------------------------------------------------
# permessage-deflate


class Deflater:
    """Sender side of permessage-deflate.

    ``strategy`` per message (all produce RFC 7692-valid payloads):
      "sync"   compress + Z_SYNC_FLUSH, strip 00 00 ff ff          (7.2.1)
      "full"   Z_FULL_FLUSH instead (also drops the LZ77 history)
      "multi"  two deflate blocks: a Z_SYNC_FLUSH in the middle    (7.2.3.5)
      "stored" a level-0 compressor (stored blocks only)           (7.2.3.3)
      "final"  a block with BFINAL=1 followed by an empty stored
               block header octet 0x00                             (7.2.3.4)
    """

    def __init__(self, wbits=15, no_context_takeover=False, level=6, mem_level=8):
        if not 9 <= wbits <= 15:
            raise ValueError("zlib cannot produce raw deflate with window bits %r" % wbits)
        self.wbits = wbits
        self.nct = no_context_takeover
        self.level = level
        self.mem_level = mem_level
        self._c = None

    def _new(self, level=None):
        return zlib.compressobj(self.level if level is None else level, zlib.DEFLATED,
                                -self.wbits, self.mem_level)

    def compress(self, data, strategy="sync", limit=None):
        """Returns the message payload, or None (and leaves the deflate context
        untouched) when ``limit`` is given and the payload would be longer."""
        if strategy == "final":
            # BFINAL=1 ends the zlib stream: the history cannot be carried over
            c = self._new()
            out = c.compress(data) + c.flush(zlib.Z_FINISH) + b"\x00"
            if limit is not None and len(out) > limit:
                return None
            self._c = None
            return out
        if strategy == "stored":
            c = self._new(0)
            out = (c.compress(data) + c.flush(zlib.Z_SYNC_FLUSH))[:-4]
            if limit is not None and len(out) > limit:
                return None
            self._c = None  # its history is not shared with the main compressor
            return out
        c = self._c
        if c is None or self.nct:
            c = self._new()
        elif limit is not None:
            c = c.copy()  # trial run: commit only if the result is used
        if strategy == "multi" and len(data) >= 2:
            h = len(data) // 2
            out = (c.compress(data[:h]) + c.flush(zlib.Z_SYNC_FLUSH)
                   + c.compress(data[h:]) + c.flush(zlib.Z_SYNC_FLUSH))
        elif strategy == "full":
            out = c.compress(data) + c.flush(zlib.Z_FULL_FLUSH)
        else:
            out = c.compress(data) + c.flush(zlib.Z_SYNC_FLUSH)
        if not out.endswith(DEFLATE_TAIL):
            raise AssertionError("sync flush did not end with 00 00 ff ff")
        out = out[:-4]
        if limit is not None and len(out) > limit:
            return None
        self._c = None if self.nct else c
        return out


class InflateError(Exception):
    pass


class Inflater:
    """Receiver side of permessage-deflate for one direction."""

    def __init__(self, wbits=15, no_context_takeover=False):
        self.wbits = wbits
        self.nct = no_context_takeover
        self._d = None

    def decompress(self, data, limit=None):
        d = self._d
        if d is None or self.nct:
            d = zlib.decompressobj(-self.wbits)
        data = bytes(data) + DEFLATE_TAIL
        out = []
        try:
            while True:
                out.append(d.decompress(data))
                if d.eof:
                    # a BFINAL=1 block: the rest belongs to a new deflate stream
                    data = d.unused_data
                    d = zlib.decompressobj(-self.wbits)
                    if not data:
                        break
                    continue
                break
        except zlib.error as e:
            raise InflateError(str(e))
        self._d = None if self.nct else d
        res = b"".join(out)
        if limit is not None and len(res) > limit:
            raise InflateError("too large")
        return res


class PMDParams:
    """Agreed permessage-deflate parameters (as they appear in the *response*)."""

    __slots__ = ("server_nct", "client_nct", "server_wbits", "client_wbits")

    def __init__(self, server_nct=False, client_nct=False, server_wbits=None, client_wbits=None):
        self.server_nct = server_nct
        self.client_nct = client_nct
        self.server_wbits = server_wbits
        self.client_wbits = client_wbits

    @classmethod
    def from_params(cls, params):
        p = cls()
        for k, v in params.items():
            if k == "server_no_context_takeover":
                p.server_nct = True
            elif k == "client_no_context_takeover":
                p.client_nct = True
            elif k == "server_max_window_bits":
                p.server_wbits = int(v) if v is not None else None
            elif k == "client_max_window_bits":
                p.client_wbits = int(v) if v is not None else None
            else:
                raise ValueError("unknown permessage-deflate parameter %r" % k)
        return p

    def to_params(self, valueless_client_bits=False):
        d = {}
        if self.server_nct:
            d["server_no_context_takeover"] = None
        if self.client_nct:
            d["client_no_context_takeover"] = None
        if self.server_wbits is not None:
            d["server_max_window_bits"] = self.server_wbits
        if self.client_wbits is not None:
            d["client_max_window_bits"] = self.client_wbits
        elif valueless_client_bits:
            d["client_max_window_bits"] = None
        return d

    def sender_args(self, role):
        """(wbits, must_not_use_context_takeover) for the compressor of ``role``."""
        if role == "client":
            return (self.client_wbits or 15, self.client_nct)
        return (self.server_wbits or 15, self.server_nct)

    def brief(self):
        return (int(self.server_nct), int(self.client_nct), self.server_wbits, self.client_wbits)


# --------------------------------------------------------------------------
# strict receiver (what a conforming peer's application would be handed)


class Receiver:
    """Consumes frames of ONE direction and produces application events.

    events: ("msg", opcode, bytes, first_frame_index, compressed) |
            ("ping", payload, idx) | ("pong", payload, idx) |
            ("close", code|None, reason_bytes, idx)
    errors: [(frame_index, code)] - every RFC 6455 / 7692 violation seen.
    Frames after the first error are still parsed (structurally) and listed
    in ``after_error`` but produce no events: a conforming receiver fails the
    connection at the first one.
    """

    def __init__(self, inflater=None, expect_masked=None, max_size=None):
        self.inflater = inflater
        self.expect_masked = expect_masked
        self.max_size = max_size
        self.events = []
        self.errors = []
        self.nframes = 0
        self.frag_op = None
        self.frag_buf = None
        self.frag_comp = False
        self.frag_first = 0
        self.close_idx = None  # frame index of the first close frame
        self.after_close = []  # briefs of frames that followed a close frame
        self.n_close = 0
        self.n_data_frames = 0
        self.len_forms = set()

    def _err(self, idx, code):
        self.errors.append((idx, code))

    def frame(self, f):
        idx = self.nframes
        self.nframes += 1
        self.len_forms.add(f.len_form)
        if self.close_idx is not None:
            self.after_close.append(f.brief())
            if f.opcode == OP_CLOSE:
                self.n_close += 1
            return
        if self.errors:
            return
        if self.expect_masked is not None and f.masked != self.expect_masked:
            self._err(idx, "mask_bit_%d" % int(f.masked))
            return
        minimal = 7 if f.length < 126 else (16 if f.length < 65536 else 64)
        if f.len_form != minimal:
            self._err(idx, "non_minimal_length")
            return
        op = f.opcode
        if f.rsv & (RSV2 | RSV3):
            self._err(idx, "rsv23")
            return
        if f.rsv & RSV1:
            if self.inflater is None:
                self._err(idx, "rsv1_without_extension")
                return
            if op not in DATA_OPS:
                self._err(idx, "rsv1_on_opcode_%x" % op)
                return
        if op in CONTROL_OPS:
            if not f.fin:
                self._err(idx, "fragmented_control")
                return
            if f.length > 125:
                self._err(idx, "control_too_long")
                return
            if op == OP_PING:
                self.events.append(("ping", f.payload, idx))
            elif op == OP_PONG:
                self.events.append(("pong", f.payload, idx))
            else:
                p = f.payload
                if len(p) == 1:
                    self._err(idx, "close_payload_1_byte")
                    return
                code = int.from_bytes(p[:2], "big") if len(p) >= 2 else None
                reason = p[2:]
                self.n_close += 1
                self.close_idx = idx
                self.events.append(("close", code, reason, idx))
            return
        if op == OP_CONT:
            if self.frag_buf is None:
                self._err(idx, "continuation_without_start")
                return
            self.n_data_frames += 1
            self.frag_buf.append(f.payload)
            if not f.fin:
                return
            op = self.frag_op
            data = b"".join(self.frag_buf)
            comp = self.frag_comp
            first = self.frag_first
            self.frag_buf = None
        elif op in DATA_OPS:
            if self.frag_buf is not None:
                self._err(idx, "data_inside_fragmented_message")
                return
            self.n_data_frames += 1
            if not f.fin:
                self.frag_op = op
                self.frag_buf = [f.payload]
                self.frag_comp = bool(f.rsv & RSV1)
                self.frag_first = idx
                return
            data = f.payload
            comp = bool(f.rsv & RSV1)
            first = idx
        else:
            self._err(idx, "unknown_opcode_%x" % op)
            return
        if comp:
            try:
                data = self.inflater.decompress(data, self.max_size)
            except InflateError as e:
                self._err(idx, "inflate:" + str(e)[:40])
                return
        if self.max_size is not None and len(data) > self.max_size:
            self._err(idx, "too_large")
            return
        if op == OP_TEXT:
            try:
                data.decode("utf-8")
            except UnicodeDecodeError:
                self._err(idx, "invalid_utf8")
                return
        self.events.append(("msg", op, data, first, comp))

    def messages(self):
        return [(e[1], e[2]) for e in self.events if e[0] == "msg"]


# --------------------------------------------------------------------------
# handshake


def accept_value(key):
    if isinstance(key, str):
        key = key.encode("latin1")
    return base64.b64encode(hashlib.sha1(key.strip() + GUID).digest()).decode("ascii")


def make_key(seed):
    return base64.b64encode(bytes(((seed * 31 + i * 7 + 3) & 0xFF) for i in range(16))).decode()


def format_extension(name, params):
    out = [name]
    for k, v in params.items():
        out.append(k if v is None else "%s=%s" % (k, v))
    return "; ".join(out)


def parse_extensions(value):
    """``Sec-WebSocket-Extensions`` value -> [(name, {param: value|None})].
    Parameters without a value map to None (RFC 6455 9.1 grammar)."""
    out = []
    for ext in value.split(","):
        parts = [p.strip() for p in ext.split(";")]
        if not parts or not parts[0]:
            continue
        params = {}
        for p in parts[1:]:
            if not p:
                continue
            if "=" in p:
                k, v = p.split("=", 1)
                v = v.strip()
                if len(v) >= 2 and v[0] == '"' and v[-1] == '"':
                    v = v[1:-1]
                params[k.strip().lower()] = v
            else:
                params[p.lower()] = None
        out.append((parts[0].lower(), params))
    return out


def client_request(host, path, key, extensions=None, version="13", extra=()):
    lines = ["GET %s HTTP/1.1" % path, "Host: %s" % host, "Upgrade: websocket",
             "Connection: Upgrade", "Sec-WebSocket-Key: %s" % key,
             "Sec-WebSocket-Version: %s" % version]
    if extensions:
        lines.append("Sec-WebSocket-Extensions: %s" % extensions)
    lines.extend(extra)
    return ("\r\n".join(lines) + "\r\n\r\n").encode("latin1")


def parse_head(data):
    """HTTP head (without the final blank line) -> (first_line, {lower_name: [values]})."""
    text = bytes(data).decode("latin1")
    lines = text.split("\r\n")
    headers = {}
    for ln in lines[1:]:
        if not ln:
            continue
        k, _, v = ln.partition(":")
        headers.setdefault(k.strip().lower(), []).append(v.strip())
    return lines[0], headers


def check_server_response(head, key):
    """Validates a server's handshake response (RFC 6455 4.1 / 4.2.2).
    Returns (ok, why, deflate_params | None)."""
    first, h = parse_head(head)
    parts = first.split(" ", 2)
    if len(parts) < 2 or parts[0] != "HTTP/1.1" or parts[1] != "101":
        return False, "status:" + first[:40], None
    if [v.lower() for v in h.get("upgrade", [])] != ["websocket"]:
        return False, "upgrade_header", None
    conn = [t.strip().lower() for v in h.get("connection", []) for t in v.split(",")]
    if "upgrade" not in conn:
        return False, "connection_header", None
    if h.get("sec-websocket-accept") != [accept_value(key)]:
        return False, "accept_value", None
    params = None
    for v in h.get("sec-websocket-extensions", []):
        for name, p in parse_extensions(v):
            if name != "permessage-deflate" or params is not None:
                return False, "unexpected_extension", None
            params = p
    return True, "", params


def server_response(request_head, deflate_params=None, extra=()):
    """Builds the 101 response to a client's upgrade request."""
    first, h = parse_head(request_head)
    key = (h.get("sec-websocket-key") or [""])[0]
    lines = ["HTTP/1.1 101 Switching Protocols", "Upgrade: websocket", "Connection: Upgrade",
             "Sec-WebSocket-Accept: %s" % accept_value(key)]
    if deflate_params is not None:
        lines.append("Sec-WebSocket-Extensions: %s"
                     % format_extension("permessage-deflate", deflate_params))
    lines.extend(extra)
    return ("\r\n".join(lines) + "\r\n\r\n").encode("latin1")


def check_client_request(request_head):
    """(ok, why, offered_extensions) for an upgrade request from a client."""
    first, h = parse_head(request_head)
    parts = first.split(" ")
    if len(parts) != 3 or parts[0] != "GET" or parts[2] != "HTTP/1.1":
        return False, "request_line", []
    if [v.lower() for v in h.get("upgrade", [])] != ["websocket"]:
        return False, "upgrade_header", []
    conn = [t.strip().lower() for v in h.get("connection", []) for t in v.split(",")]
    if "upgrade" not in conn:
        return False, "connection_header", []
    if h.get("sec-websocket-version") != ["13"]:
        return False, "version", []
    keys = h.get("sec-websocket-key", [])
    try:
        if len(keys) != 1 or len(base64.b64decode(keys[0], validate=True)) != 16:
            return False, "key", []
    except Exception:
        return False, "key", []
    offers = []
    for v in h.get("sec-websocket-extensions", []):
        offers.extend(parse_extensions(v))
    return True, "", offers


def close_payload(code=None, reason=b""):
    if code is None:
        return b""
    return int(code).to_bytes(2, "big") + bytes(reason)
