"""Sequential reference models for tornado.locks / tornado.queues (C33-C35).

Plain Python, no Tornado, no event loop.  A model consumes the same
operations as the real object plus two kinds of explicit events that in the
real world happen "by themselves":

  expire(wid, now)   the timer of waiter ``wid`` ran (legal only once the loop
                     clock has reached its deadline: timers never fire early)
  cancel(wid)        the application cancelled the waiter's future

Time is an integer number of UNITs (2**-10 s) since the start of the run.
A waiter registered at ``now`` with deadline ``D`` has the effective deadline
``max(D, now)`` (Tornado turns a deadline in the past into "next iteration").
The models never decide *when* a timer runs; the harness observes that on the
real future and feeds ``expire`` - the model only says whether it is legal
(``enabled``) and whether it is overdue (``due`` - to be asked at a point where
the loop has run everything runnable at the current instant).

Waiter states
  PENDING    blocked
  OK         resolved successfully (``value``: True for Condition.wait, the item
             for a getter, None otherwise)
  TIMEOUT    its timer ran while it was still blocked (Condition.wait: result
             False; everything else: tornado.util.TimeoutError)
  CANCELLED  cancelled while blocked
  WOKEN      (Event waits with a timeout only) the event was set strictly
             before the deadline: the wait MUST complete successfully, the
             outer future just has not been resolved yet
  EITHER     (Event waits with a timeout only) the event was set at/after the
             deadline but before the timer was observed to have run: success
             and TimeoutError are both legal (timers may be late, never early)
"""

PENDING = "pending"
OK = "ok"
TIMEOUT = "timeout"
CANCELLED = "cancelled"
WOKEN = "woken"
EITHER = "either"
FINAL = (OK, TIMEOUT, CANCELLED)


class ModelError(Exception):
    """An event was fed to the model that the model says cannot happen."""


class W:
    __slots__ = ("wid", "role", "deadline", "state", "value", "item", "born")

    def __init__(self, wid, role, deadline, now):
        self.wid = wid
        self.role = role  # acq | cwait | ewait | join | get | put
        self.deadline = None if deadline is None else max(deadline, now)
        self.state = PENDING
        self.value = None
        self.item = None
        self.born = now

    def __repr__(self):  # pragma: no cover - debugging aid
        return f"W({self.wid},{self.role},{self.state},dl={self.deadline})"


class _Timed:
    def __init__(self):
        self.w = {}

    def waiter(self, wid):
        return self.w[wid]

    def _new(self, wid, role, deadline, now):
        if wid in self.w:
            raise ModelError(f"duplicate waiter id {wid}")
        w = W(wid, role, deadline, now)
        self.w[wid] = w
        return w

    def enabled(self, wid, now):
        """May the timer of this waiter have run by loop time ``now``?"""
        w = self.w[wid]
        return (w.state in (PENDING, EITHER) and w.deadline is not None
                and now >= w.deadline)

    def due(self, now):
        return [wid for wid in self.w if self.enabled(wid, now)]

    def pending_deadlines(self):
        return sorted({w.deadline for w in self.w.values()
                       if w.state in (PENDING, EITHER) and w.deadline is not None})

    def live(self):
        return [wid for wid, w in self.w.items() if w.state == PENDING]

    def _drop(self, w):
        raise NotImplementedError

    def expire(self, wid, now):
        w = self.w[wid]
        if not self.enabled(wid, now):
            raise ModelError(f"expiry of {w!r} not enabled at {now}")
        self._drop(w)
        w.state = TIMEOUT
        w.value = False if w.role == "cwait" else None

    def cancel(self, wid):
        """-> what Future.cancel() must return."""
        w = self.w[wid]
        if w.state in FINAL:
            return False
        self._drop(w)
        w.state = CANCELLED
        return True


# --------------------------------------------------------------------------
class SemaphoreModel(_Timed):
    """kind: 'sem' (Semaphore(n)), 'bsem' (BoundedSemaphore(n)), 'lock' (Lock)."""

    def __init__(self, kind, n=1):
        super().__init__()
        self.kind = kind
        self.initial = 1 if kind == "lock" else n
        self.value = self.initial
        self.queue = []  # live waiters, arrival order
        self.granted = 0
        self.released = 0

    def _drop(self, w):
        if w.wid in self.queue:
            self.queue.remove(w.wid)

    def acquire(self, wid, deadline, now):
        w = self._new(wid, "acq", deadline, now)
        if self.value > 0:
            self.value -= 1
            self.granted += 1
            w.state = OK
        else:
            self.queue.append(wid)
        return w.state

    def release(self):
        """-> (exception name or None, [waiter granted by this release])."""
        if self.kind != "sem" and self.value >= self.initial:
            return ("RuntimeError" if self.kind == "lock" else "ValueError"), []
        self.released += 1
        if self.queue:
            wid = self.queue.pop(0)
            self.w[wid].state = OK
            self.granted += 1
            return None, [wid]
        self.value += 1
        return None, []

    def problems(self):
        out = []
        if self.value < 0:
            out.append("value < 0")
        if self.value > 0 and self.queue:
            out.append("permit idle while a live waiter waits")
        if self.granted - self.released > self.initial:
            out.append("granted - released > initial")
        return out


# --------------------------------------------------------------------------
class ConditionModel(_Timed):
    def __init__(self):
        super().__init__()
        self.queue = []

    def _drop(self, w):
        if w.wid in self.queue:
            self.queue.remove(w.wid)

    def wait(self, wid, deadline, now):
        self._new(wid, "cwait", deadline, now)
        self.queue.append(wid)
        return PENDING

    def notify(self, n=1):
        """-> waiters woken, in the order they must be woken."""
        n = max(0, n)
        woken, self.queue = self.queue[:n], self.queue[n:]
        for wid in woken:
            w = self.w[wid]
            w.state = OK
            w.value = True
        return woken

    def notify_all(self):
        return self.notify(len(self.queue))


# --------------------------------------------------------------------------
class EventModel(_Timed):
    def __init__(self, value=False, role="ewait"):
        super().__init__()
        self.value = value
        self.role = role
        self.waiting = []

    def _drop(self, w):
        if w.wid in self.waiting:
            self.waiting.remove(w.wid)

    def is_set(self):
        return self.value

    def wait(self, wid, deadline, now):
        w = self._new(wid, self.role, deadline, now)
        if self.value:
            w.state = OK
        else:
            self.waiting.append(wid)
        return w.state

    def set(self, now):
        """-> waiters affected (OK: must be done now; WOKEN / EITHER: see module doc)."""
        if self.value:
            return []
        self.value = True
        hit, self.waiting = self.waiting, []
        for wid in hit:
            w = self.w[wid]
            if w.deadline is None:
                w.state = OK
            elif now < w.deadline:
                w.state = WOKEN
            else:
                w.state = EITHER
        return hit

    def clear(self):
        self.value = False

    def confirm(self, wid):
        """The real wait was observed to have completed successfully."""
        w = self.w[wid]
        if w.state not in (WOKEN, EITHER):
            raise ModelError(f"{w!r} cannot complete")
        w.state = OK


# --------------------------------------------------------------------------
class QueueModel(_Timed):
    """kind: 'fifo' | 'lifo' | 'prio'.  Items must be mutually comparable."""

    def __init__(self, kind, maxsize=0):
        super().__init__()
        self.kind = kind
        self.maxsize = maxsize
        self.items = []  # insertion order
        self.getters = []
        self.putters = []
        self.unfinished = 0
        self.fin = EventModel(True, role="join")
        self.put_ok = []  # every item whose put succeeded, in order
        self.got = []  # every item handed out

    # -- dispatch for join waiters, which live in the embedded event model
    def _m(self, wid):
        return self if wid in self.w else self.fin

    def waiter(self, wid):
        return self._m(wid).w[wid]

    def enabled(self, wid, now):
        return _Timed.enabled(self._m(wid), wid, now)

    def due(self, now):
        return _Timed.due(self, now) + self.fin.due(now)

    def pending_deadlines(self):
        return sorted(set(_Timed.pending_deadlines(self)) | set(self.fin.pending_deadlines()))

    def expire(self, wid, now):
        m = self._m(wid)
        if m is self:
            _Timed.expire(self, wid, now)
        else:
            m.expire(wid, now)

    def cancel(self, wid):
        m = self._m(wid)
        return _Timed.cancel(self, wid) if m is self else m.cancel(wid)

    def confirm(self, wid):
        self.fin.confirm(wid)

    def _drop(self, w):
        if w.wid in self.getters:
            self.getters.remove(w.wid)
        if w.wid in self.putters:
            self.putters.remove(w.wid)

    # -- observers
    def qsize(self):
        return len(self.items)

    def empty(self):
        return not self.items

    def full(self):
        return self.maxsize > 0 and len(self.items) >= self.maxsize

    # -- internals
    def _insert(self, item):
        self.items.append(item)
        self.unfinished += 1
        self.fin.clear()
        self.put_ok.append(item)

    def _pick(self, items):
        if self.kind == "fifo":
            return items[0]
        if self.kind == "lifo":
            return items[-1]
        return min(items)

    # -- operations
    def put_nowait(self, item):
        """-> (exception name or None, [getter served])."""
        if self.getters:
            g = self.w[self.getters.pop(0)]
            self._insert(item)
            self.items.remove(item)
            g.state = OK
            g.value = item
            self.got.append(item)
            return None, [g.wid]
        if self.full():
            return "QueueFull", []
        self._insert(item)
        return None, []

    def put(self, wid, item, deadline, now):
        """-> (state of the put future, [getter served])."""
        w = self._new(wid, "put", deadline, now)
        w.item = item
        exc, res = self.put_nowait(item)
        if exc:
            self.putters.append(wid)
        else:
            w.state = OK
        return w.state, res

    def get_candidates(self):
        """Items a get may legally return now.

        With a blocked putter and a full queue the statement does not say
        whether the putter's item enters the queue before or after the get
        takes its item; for LIFO / priority queues that changes the answer, so
        both are allowed (Tornado admits the putter first).
        """
        if self.putters:
            p = self.w[self.putters[0]]
            c = [self._pick(self.items + [p.item])]
            if self.items and self._pick(self.items) not in c:
                c.append(self._pick(self.items))
            return c
        if self.items:
            return [self._pick(self.items)]
        return []

    def get_nowait(self, observed=None):
        """-> (exception name or None, item, [putter admitted])."""
        cands = self.get_candidates()
        if not cands:
            return "QueueEmpty", None, []
        item = observed if observed in cands else cands[0]
        res = []
        if self.putters:
            p = self.w[self.putters.pop(0)]
            self._insert(p.item)
            p.state = OK
            res.append(p.wid)
        self.items.remove(item)
        self.got.append(item)
        return None, item, res

    def get(self, wid, deadline, now, observed=None):
        """-> (state of the get future, [putter admitted])."""
        w = self._new(wid, "get", deadline, now)
        exc, item, res = self.get_nowait(observed)
        if exc:
            self.getters.append(wid)
        else:
            w.state = OK
            w.value = item
        return w.state, res

    def task_done(self, now):
        """-> (exception name or None, [join waiters affected])."""
        if self.unfinished <= 0:
            return "ValueError", []
        self.unfinished -= 1
        if self.unfinished == 0:
            return None, self.fin.set(now)
        return None, []

    def join(self, wid, deadline, now):
        return self.fin.wait(wid, deadline, now)

    def problems(self):
        out = []
        if self.maxsize and len(self.items) > self.maxsize:
            out.append("qsize > maxsize")
        if self.getters and self.items:
            out.append("getter blocked while items queued")
        if self.putters and not self.full():
            out.append("putter blocked while queue not full")
        if (self.unfinished == 0) != self.fin.value:
            out.append("finished flag != (unfinished == 0)")
        if sorted(self.put_ok) != sorted(self.got + self.items):
            out.append("items not conserved")
        return out
