#!/bin/sh
# Verify a seeded change produced by an independent sub-agent and file it under /verif/seeded/.
# usage: tools/verify_seed.sh <Cxx> <n> [srcbase=/tmp/mut-out] [outn=n]   (reads <srcbase>/<Cxx>/change<n>.diff, demo<n>.py, meta<n>.json; files /verif/seeded/<Cxx>-<outn>)
# Confirms in a scratch worktree: diff applies to pristine HEAD; demo passes without and fails with the change;
# the existing test suite (tornado/test) passes with the change (load-flaky tests are re-run alone).
P="$1"; N="$2"; SRC="${3:-/tmp/mut-out}/$P"; ON="${4:-$N}"
W="/tmp/seedchk/$P-$ON"; OUT="/verif/seeded/$P-$ON"
mkdir -p /tmp/seedchk; rm -rf "$W"; git -C /repo worktree prune
git -C /repo worktree add --detach "$W" HEAD >/dev/null 2>&1 || { echo "worktree failed"; exit 2; }
trap 'git -C /repo worktree remove --force "$W" >/dev/null 2>&1' EXIT
cd "$W" || exit 2
cp "$SRC/demo$N.py" "$W/_demo.py"
env -u TORNADO_VERIF timeout 300 /venv/bin/python _demo.py > "$W/_demo0.out" 2>&1; D0=$?
git apply --check "$SRC/change$N.diff" || { echo "$P-$N: diff does not apply"; exit 1; }
git apply "$SRC/change$N.diff"
env -u TORNADO_VERIF timeout 300 /venv/bin/python _demo.py > "$W/_demo1.out" 2>&1; D1=$?
env -u TORNADO_VERIF timeout 1500 /venv/bin/python -m pytest -q -p no:cacheprovider --timeout=900 --continue-on-collection-errors tornado/test > "$W/_suite.out" 2>&1
SUM=$(tail -1 "$W/_suite.out")
FAILED=$(grep -E '^(FAILED|ERROR) tornado/test/' "$W/_suite.out" | sed 's/^[A-Z]* //; s/ - .*//' | sort -u)
STILL=""; ENVFAIL=""
for t in $FAILED; do
  ok=0
  for k in 1 2 3; do
    env -u TORNADO_VERIF timeout 600 /venv/bin/python -m pytest -q -p no:cacheprovider --timeout=900 "$t" > "$W/_rerun.out" 2>&1 && { ok=1; break; }
  done
  if [ $ok != 1 ]; then
    # environmental? the same test must then also fail on the pristine tree right now
    PW="$W-pristine"
    [ -d "$PW" ] || git -C /repo worktree add --detach "$PW" HEAD >/dev/null 2>&1
    ( cd "$PW" && env -u TORNADO_VERIF timeout 600 /venv/bin/python -m pytest -q -p no:cacheprovider --timeout=900 "$t" > "$W/_rerun0.out" 2>&1 ) && STILL="$STILL $t" || ENVFAIL="$ENVFAIL $t"
  fi
done
[ -d "$W-pristine" ] && git -C /repo worktree remove --force "$W-pristine" >/dev/null 2>&1
echo "$P-$N demo_unchanged_rc=$D0 demo_changed_rc=$D1 suite='$SUM' failed_first_pass='$(echo $FAILED | tr '\n' ' ')' still_failing_alone='$STILL' fails_on_pristine_too='$ENVFAIL'"
if [ $D0 = 0 ] && [ $D1 != 0 ] && [ -z "$STILL" ]; then
  mkdir -p "$OUT"
  cp "$SRC/change$N.diff" "$OUT/patch.diff"; cp "$SRC/demo$N.py" "$OUT/demo.py"
  /venv/bin/python - "$SRC/meta$N.json" "$OUT/meta.json" "$P" "$D0" "$D1" "$SUM" "$(echo $FAILED | tr '\n' ' ')" <<'PY'
import json, sys
src, dst, pid, d0, d1, summ, flaky = sys.argv[1:8]
try:
    m = json.load(open(src))
except Exception:
    m = {}
m["property"] = pid
m["verified_by_lead"] = {
    "how": "tools/verify_seed.sh: fresh worktree of /repo HEAD; demo run before/after git apply; pytest tornado/test with the change; tests failing in the loaded full run were re-run alone (<=3 tries)",
    "demo_rc_unchanged": int(d0), "demo_rc_changed": int(d1),
    "suite_summary_with_change": summ, "failed_in_loaded_full_run_but_pass_alone": flaky.split(),
}
json.dump(m, open(dst, "w"), indent=1)
PY
  echo "$P-$N KEPT -> $OUT"
else
  echo "$P-$N REJECTED"
  exit 1
fi
