"""Create a mutant patch: tools/mkmutant.py <out.patch> <relpath> <<'EOF'
<old text>
=====
<new text>
EOF
The old text must occur exactly once in /repo/<relpath>."""
import difflib, sys
out, rel = sys.argv[1], sys.argv[2]
spec = sys.stdin.read()
old, new = spec.split("\n=====\n")
new = new.rstrip("\n") if not old.endswith("\n") else new
src = open("/repo/" + rel).read()
old = old.strip("\n"); new = new.strip("\n")
assert src.count(old) == 1, f"old text occurs {src.count(old)} times"
dst = src.replace(old, new)
d = difflib.unified_diff(src.splitlines(True), dst.splitlines(True), "a/" + rel, "b/" + rel)
open(out, "w").write("".join(d))
print("wrote", out)
