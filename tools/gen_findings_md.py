"""Print the findings section of DESIGN.md (9.4) from known_findings.json and the fix commits."""
import json, subprocess, re
d = json.load(open('/verif/known_findings.json'))
log = subprocess.run(['git', '-C', '/repo', 'log', '--reverse', '--format=%h %s'], capture_output=True, text=True).stdout.splitlines()
subj = {l.split()[0]: l.split(' ', 1)[1] for l in log if ' fix:' in l or l.split(' ', 1)[1].startswith('fix:')}
print("### 9.4 Defects found in Tornado\n")
print("Every violation reported on the unchanged tree was triaged (code read, minimised replay kept under")
print("`findings/`). Genuine defects with a small, safe repair became one unguarded `fix:` commit each in")
print("`/repo` (the unedited test suite passes after every one of them: 1171 passed); the others are open")
print("known findings. A `fixed:` record suppresses nothing: the checks pass on the repaired tree and report")
print("the violation again if it returns (the planted mutants that re-introduce them prove that).\n")
print("**Fixed (%d commits).**\n" % len(d['fixed']))
for f in d['fixed']:
    m = re.match(r"fixed: property=(C\d+) ([0-9a-f]+) (.*)", f)
    pid, sha, what = m.groups()
    print(f"* {pid} `{sha}` — {subj.get(sha, '').replace('fix: ', '')}. {what}")
print("\n**Open known findings (%d keys).**\n" % len(d['findings']))
for f in d['findings']:
    print(f"* {f['property']} `{f['key']}` — {f['what']}")
