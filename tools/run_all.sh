#!/bin/sh
# Run every registered quick (or thorough) check once; summary table.
cd "$(dirname "$0")/.." || exit 2
TIER="${1:-quick}"
rc=0
for P in $(grep -v '^#' tools/READY.txt); do
  s=$(date +%s)
  out=$(./check "$P" "$TIER" 2>&1); r=$?
  e=$(date +%s)
  echo "$P rc=$r wall=$((e-s))s $(echo "$out" | grep '^check ' | tail -1 | cut -d' ' -f5-)"
  echo "$out" | grep -E '^(VIOLATION|KNOWN-FINDING|HARNESS)' 
  [ $r = 0 ] || rc=1
done
exit $rc
