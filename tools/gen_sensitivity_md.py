"""Print DESIGN.md section 9.5 (sensitivity) from selftest/SENSITIVITY.log and seeded/*/meta.json."""
import glob, json, os, re
log = open('/verif/selftest/SENSITIVITY.log').read()
det = {}
for m in re.finditer(r"mutant=(\S+) check=(C\d+) (DETECTED|MISSED|HARNESS-ERROR)(?:.*?replay=\S*/replays/(\S+?)-[0-9a-f]{12}\.json)?", log):
    det[m.group(1)] = (m.group(2), m.group(3), (m.group(4) or '').split('-', 1)[-1])
planted = {k: v for k, v in det.items() if k.startswith('selftest/')}
seeded = {k: v for k, v in det.items() if k.startswith('seeded/')}
print("### 9.5 Sensitivity: which checks catch which changes\n")
print("`selftest/sensitivity.sh` applies every patch to a scratch copy of `/repo`, runs the property's `quick`")
print("check against it (`VERIF_REPO`), then replays the reported file on the mutant (must exit 1) and on the")
print("clean tree (must exit 0). Log of the last full run: `selftest/SENSITIVITY.log`.\n")
print("**Planted bugs** (`selftest/mutants/`, written by the module authors from §4's lists plus their own;")
print("`equivalent/` holds the ones shown not to break the property on the current tree, with reasons).\n")
print("| property | planted | detected | first rule reported (examples) |")
print("|---|---|---|---|")
by = {}
for k, (p, st, rule) in planted.items():
    by.setdefault(p, []).append((k, st, rule))
for p in sorted(by):
    xs = by[p]
    rules = sorted({r for _, st, r in xs if st == 'DETECTED' and r})[:4]
    miss = [os.path.basename(k) for k, st, _ in xs if st != 'DETECTED']
    extra = (" — NOT detected: " + ", ".join(miss)) if miss else ""
    print(f"| {p} | {len(xs)} | {sum(1 for _, st, _ in xs if st == 'DETECTED')} | {', '.join('`'+r+'`' for r in rules)}{extra} |")
print("\n**Independently seeded changes** (`seeded/<id>-<n>/`: produced by fresh sub-agents that were given only")
print("the property text and a scratch worktree, confirmed by `tools/verify_seed.sh`: the diff applies to the")
print("pristine tree, the agent's demo passes without and fails with it, the unedited test suite passes with it).\n")
print("| id | change (agent's summary, abridged) | needs | result | rule |")
print("|---|---|---|---|---|")
for d in sorted(glob.glob('/verif/seeded/*/')):
    sid = os.path.basename(d.rstrip('/'))
    m = json.load(open(d + 'meta.json'))
    p, st, rule = seeded.get(f'seeded/{sid}/patch.diff', ('?', 'not run', ''))
    summ = re.sub(r"\s+", " ", m.get('summary', ''))[:170].replace('|', '/')
    need = re.sub(r"\s+", " ", str(m.get('what_it_needs_to_manifest', '')))[:150].replace('|', '/')
    print(f"| {sid} | {summ} | {need} | {st} | `{rule}` |")
