"""Regenerate /verif/MANIFEST.json from the property modules that exist.

A property is claimed only if props/cXX.py exists AND is listed in READY
below (set by the lead after review); everything else not claimed is either
not_applicable (pure function of input: DESIGN.md section 5) or, while a
module is still being built, listed as not yet claimed with that reason.
"""
import json
import os
import sys

VERIF = os.path.dirname(os.path.dirname(os.path.abspath(__file__)))

TECH = "deterministic simulation with fault injection"

# id -> (level, what is searched / oracle, trusted base)
CLAIMS = {
    "C01": ("exploration", "seeded search over request byte streams from a mutation grammar x segmentations x short-read tapes x chunk_size x 4 application variants; oracle = independent strict reference request reader + metamorphic equality across segmentations", "reference reader ref/http_request.py; SimSocket/SimLoop models"),
    "C02": ("exploration", "seeded search over handler output programs x request kinds x client windows/partial sends/slow readers; oracle = strict client-side response framing checker + model of clean programs", "ref/http_response_check.py; program model; SimNet back-pressure model"),
    "C03": ("exploration", "seeded search over (version, Connection value, method, body framing, no_keep_alive, early finish, streamed/buffered) x pipelined/sequential second request; oracle = reference keep-alive predicate observed at the wire and at the application delegate", "reference predicate; response checker"),
    "C04": ("exploration", "seeded search over header/body sizes at limit-1/limit/limit+1/far above x framings (CL, chunk splits, gzip bombs) x limit knobs incl. per-request override x segmentations; oracle = refusal+close over the limit, delivered bytes never exceed the limit, exact service within it", "boundary semantics as derived from the source and documentation"),
    "C05": ("fault_enumeration", "for each sampled workload the client disconnect is placed at EVERY byte offset of the request (FIN and RST) and at every suspension point of the response phase, plus body/idle timeouts in virtual time; oracle = exactly one finish/close per started delegate, body prefix, close_all_connections completes", "enumeration is over fault points of sampled workloads, not over workloads"),
    "C08": ("exploration", "real SimpleAsyncHTTPClient against scripted raw server peers: response streams from a mutation grammar x segmentations x FIN/RST offsets x decompression/streaming knobs; oracle = independent strict reference response reader (RFC 9112 6.3 order)", "ref/http_response.py; knowingly-stricter list"),
    "C09": ("exploration", "N concurrent fetches x max_clients x scripted servers (delay, refuse, black hole, reset, redirect chains) x timers; oracle = max_clients invariant on open sockets, FIFO start order, exactly-once completion, redirect model incl. credential stripping on the wire", "redirect model; wire-level socket count"),
    "C10": ("exploration", "real TCPClient/_Connector/IOStream.connect on simulated sockets: address lists x per-address outcomes x delays on a grid around the 0.3 s and overall timers x lateness/ties; oracle = exactly-once completion with first success/last failure/timeout, <=1 attempt in flight per family, no leaked sockets", "SimSocket connect model"),
    "C11": ("exploration", "seeded search over (stream, arrival pattern, short-read tape, readiness perturbation, read-request sequence); every result checked against a cursor model of the sent stream", "SimSocket model of a non-blocking TCP socket; cursor-model oracle"),
    "C12": ("exploration", "write sequences around the 2 KiB coalescing threshold x partial-send/zero-window/slow-reader schedules x max_write_buffer_size; oracle = transport bytes are a prefix of the concatenated writes, futures resolve in order only after their bytes were accepted, refused writes have no effect; _StreamBuffer additionally driven against a bytearray model", "SimNet window model"),
    "C13": ("fault_enumeration", "for each sampled op sequence a close cause (local close, FIN, RST, recv/send error, refused connect) is injected at EVERY point between/inside ops; oracle = every pending future settled exactly once with the right outcome, close callback once and last, later ops fail", "enumeration over close points of sampled op sequences"),
    "C14": ("exploration", "real client<->server and raw frame peer vs real server/client: message sequences over length boundaries x deflate configurations x masks (C and Python) x fragmentation with interleaved control frames x segmentations; oracle = independent RFC 6455/7692 codec, equality of delivered messages", "ref/ws_codec.py"),
    "C15": ("fault_enumeration", "one protocol violation inserted at EVERY position of sampled valid frame sequences, to the real server and to the real client; oracle = earlier messages intact, nothing from the violating or later frames delivered, connection aborted, on_close once", "enumeration over insertion positions of sampled sequences"),
    "C16": ("exploration", "interleavings of local/peer close, disconnects at frame boundaries, ping timers, in-flight messages under virtual time; oracle over frames parsed from both directions and application callbacks", "ref/ws_codec.py; 5 s closing timeout read from source"),
    "C32": ("exploration", "keep-alive request histories with generated proxy headers x handler kinds x segmentation/pipelining/disconnects; oracle = reference function of (socket address, this request's headers, trusted_downstream); independence from earlier requests", "precedence details taken from the property text and source"),
    "C33": ("exploration", "generated op sequences (acquire/release/cancel/timeouts) with scheduler-chosen yields and clock advances against a sequential reference model, checked after every step", "ref/models_sync.py"),
    "C34": ("exploration", "generated op sequences (wait/notify/set/clear/timeouts) with scheduler-chosen yields and clock advances against a sequential reference model", "ref/models_sync.py"),
    "C35": ("exploration", "generated op sequences (put/get/nowait/task_done/join/cancel/timeouts) on three queue classes x maxsize 0..3 against a sequential reference model", "ref/models_sync.py"),
    "C36": ("exploration", "completion orders/outcomes/spacings of up to four inputs x deadline placements for multi, WaitIterator, with_timeout, chain_future; oracle = outcome tables + settles-at-quiescence", "outcome tables from the statement"),
    "C37": ("exploration", "coroutine programs from a bounded grammar rendered as @gen.coroutine and async def, run under all sampled completion orders; oracle = same result/exception and same own side-effect sequence", "translation table between the two forms"),
    "C38": ("exploration", "scheduling programs (callbacks, timeouts, removals, raising callbacks, add_future, run_sync) under a virtual clock with lateness/ties, plus baton-scheduled foreign threads calling add_callback; oracle = exactly-once, per-thread FIFO, deadline order, not-before-deadline, later-iteration, logged errors", "baton scheduler treats asyncio internals as atomic"),
    "C39": ("exploration", "real PeriodicCallback under generated clock sequences (stalls, forward/backward wall-clock steps, long callbacks, stop/start); oracle with exact rational arithmetic on the observed float deadlines (4 ulp tolerance)", "the exact-rational/proof half of the quantifier is outside this technique"),
    "C40": ("exploration", "the real SelectorThread on real OS threads under a baton scheduler that decides every switch at simulated threading/select/socketpair primitives (line-level in thorough); oracle = <=1 select in progress, callbacks on loop thread only, readiness dispatched, close returns, no deadlock", "asyncio internals atomic; simulated select/Condition semantics"),
    "C41": ("exploration", "fork_processes in parent and child roles over scripted fork/wait exit histories; oracle = supervisor reference model", "sim/procs.py wait-status encoding"),
    "C42": ("exploration", "Subprocess over a fake Popen with scripted waitpid results and SIGCHLD delivery times (late, coalesced, spurious); oracle = exactly-once callback with decoded status, wait_for_exit contract", "sim/procs.py"),
}

NA = {
    "C06": "sequential data structure (header multimap): no schedule, clock, I/O pattern or fault can change the outcome; pure function of the operation history",
    "C07": "character validation of arguments: a pure function of the strings passed",
    "C17": "WebSocket handshake acceptance is a function of one request's/response's headers; nothing for a scheduler or fault injector to vary",
    "C18": "native masking vs reference is a pure function of (mask, payload, alignment)",
    "C19": "template compiler correctness over template text: pure function of input",
    "C20": "template autoescaping: pure function of template text and values",
    "C21": "escaping helpers are pure string functions",
    "C22": "linkify is a pure string function",
    "C23": "signed values are a pure function of (secret, name, value, clock value passed as argument)",
    "C24": "XSRF acceptance is a function of one request's cookie and token",
    "C25": "cookie emission is a function of set_cookie arguments",
    "C26": "static path confinement is a function of the URL path and a fixed tree",
    "C27": "static range/conditional responses are a function of file bytes and request headers (no concurrent modification in the quantifier)",
    "C28": "framework redirects are a function of the request path",
    "C29": "gzip transparency is a function of the write/flush program and headers; nothing in it depends on delivery or timing (exercised incidentally as a C02 knob, not claimed)",
    "C30": "form parsing is a pure parser",
    "C31": "routing / reverse_url is pure matching",
    "C43": "HTTP utility parsers are pure functions",
    "C44": "options parsing is a pure function of argv/config text",
    "C45": "log formatting is a pure function of the record",
    "C46": "locale formatting is pure (the reference time is an argument)",
    "C47": "WSGI container: environ and response are functions of one request",
    "C48": "OAuth signatures are pure functions",
}


def main():
    ready = [l.strip() for l in open(os.path.join(VERIF, "tools", "READY.txt")) if l.strip()
             and not l.startswith("#")]
    checks = []
    for pid in sorted(CLAIMS):
        if pid not in ready:
            continue
        assert os.path.exists(os.path.join(VERIF, "props", pid.lower() + ".py")), pid
        level, text, note = CLAIMS[pid]
        checks.append({
            "property_id": pid,
            "quick_cmd": f"./check {pid} quick",
            "thorough_cmd": f"./check {pid} thorough",
            "evidence_file": f"/verif/evidence/{pid}.json",
            "replay_cmd_template": f"./check {pid} --replay {{path}}",
            "engine": "tornado-dst",
            "level_claimed": {
                "category": level,
                "text": text + ". Seeded sampling: a clean batch is evidence, not proof.",
                "design_ref": f"DESIGN.md section 4, {pid}",
            },
            "level_note": "Trusted: " + note + "; SimLoop poll/timer semantics and SimNet TCP model (DESIGN.md 3.2-3.3). Real Tornado code runs unmodified apart from the guarded ordered-set hook.",
            "technique": TECH + (": every fault position of each sampled workload is enumerated" if level == "fault_enumeration" else ": seeded search over schedules and fault sequences with a reference-model oracle"),
        })
    na = [{"property_id": k, "reason": "not applicable to this technique: " + v} for k, v in sorted(NA.items())]
    for pid in sorted(CLAIMS):
        if pid not in ready:
            na.append({"property_id": pid, "reason": "simulation target (DESIGN.md section 4) whose check is not yet registered: machinery still being built/reviewed"})
    hook_commits = ["a64e1e5"]
    doc = {
        "version": 1,
        "setup_cmd": "/venv/bin/python -B -c \"import sys; sys.path[:0]=['/repo','/verif']; import tornado, sim.env, sim.runner; print('ok', tornado.version)\"",
        "hooks": {
            "guard": "TORNADO_VERIF",
            "enable": "environment variable TORNADO_VERIF=1 (exported by ./check); read once at import in tornado/_verif.py",
            "baseline_off_cmd": "cd /repo && env -u TORNADO_VERIF /venv/bin/python -m pytest -ra -q -p no:cacheprovider --timeout=900 --continue-on-collection-errors",
            "source_commits": hook_commits,
            "add_only": True,
        },
        "engines": [{
            "name": "tornado-dst", "path": "/verif/sim",
            "serves_properties": [c["property_id"] for c in checks],
            "kind_free_text": "deterministic simulation with fault injection: custom asyncio.BaseEventLoop with virtual time (SimLoop), in-process TCP model (SimNet/SimSocket/RawPeer), baton-scheduled threads, scripted processes, decision tapes, seeded scenario generation, delta-debugging shrinker, replay files",
        }],
        "checks": checks,
        "not_applicable": na,
        "notes": "All checks: ./check <id> quick|thorough|--replay <file>; exit 0 clean, 1 with VIOLATION line, 2 harness error. Known findings: /verif/known_findings.json. See DESIGN.md.",
    }
    with open(os.path.join(VERIF, "MANIFEST.json"), "w") as f:
        json.dump(doc, f, indent=1)
    print("claimed:", [c["property_id"] for c in checks])


if __name__ == "__main__":
    sys.exit(main())
